//! Server front-end family (C15 / C16 / C09 composed): ONE real server (plain TCP, TLS, or TLS with
//! authorization) with an address filter, and a mix of peers on it: filter-rejected sources (client
//! sockets bound to 127.0.0.2 / 127.0.0.3), peers that never start the TLS handshake, peers that talk
//! Modbus in clear to the TLS port, TLS peers with good / other-role / wrong-authority / role-less
//! certificates (`openssl s_client -bind`), and good peers.
//!
//! input line:  <filter> <max_sessions> <transport> <op> <op> ...
//!   filter     any | w:<a.b.c.d with '*'> | x:<ip> (exact) | s:<ip>,<ip>.. (any of)
//!   transport  tcp | tls | tlsauthz
//!   ops        C<src><kind>  connect from source address 127.0.0.<src> (src = 1..9); kind:
//!                 p = talks Modbus in clear, s = connects and sends nothing,
//!                 g = TLS, certificate of our CA with role "operator", v = same CA, role "viewer",
//!                 b = TLS, certificate of another authority, l = TLS, certificate without a role
//!              X<k>  the peer of connection k closes
//!              W<k>  (tlsauthz, TLS peers) peer k pipelines read-coils requests, which the authorization handler denies
//!                    (the session answers each with its own exception reply), and stops reading: the session
//!                    blocks writing an exception reply. No field is printed for this op. From then on connection k
//!                    cannot be probed with a request: it counts as served (with the role seen before) as long as
//!                    its `openssl s_client` process lives - the process ends when the server closes the connection.
//!                    The whole line is NOFLOOD if the blocked state was not reached.
//!              S     ServerHandle::shutdown      H  drop the ServerHandle
//!   connection numbers = order of the C ops (every C op counts, whatever happens to it)
//! after every op EVERY connection that can talk is probed with a read of holding register <k> through
//! its session; the authorization handler records (register, role).
//! output line: one field per op joined by '|'; a field has one item per connection joined by ',':
//!   `-` not served, `S` served without an authorization query, `S:<role>` served, the query carried <role>
//! args: <verif certs dir> [openssl]
use std::io::{Read, Write};
use std::net::{Ipv4Addr, SocketAddr};
use std::path::Path;
use std::process::{Child, Command, Stdio};
use std::sync::atomic::{AtomicUsize, Ordering};
use std::sync::{Arc, Mutex};
use std::time::{Duration, Instant};

use rodbus::server::*;
use rodbus::*;

struct Handler;
impl RequestHandler for Handler {
    fn read_holding_register(&self, _address: u16) -> Result<u16, ExceptionCode> {
        Ok(42)
    }
}

struct Authz {
    seen: Arc<Mutex<Vec<(u16, String)>>>,
}
impl AuthorizationHandler for Authz {
    fn read_holding_registers(&self, _unit_id: UnitId, range: AddressRange, role: &str) -> Authorization {
        self.seen.lock().unwrap().push((range.start, role.to_string()));
        Authorization::Allow
    }
}

struct Proc {
    child: Child,
    stdin: Option<std::process::ChildStdin>,
    out: Arc<Mutex<Vec<u8>>>,
    eof: Arc<AtomicUsize>,
    paused: Arc<std::sync::atomic::AtomicBool>, // W: nobody reads the process's stdout any more
    flooded: bool,
    last_item: String,
}

fn pump<R: Read + Send + 'static>(mut r: R, sink: Option<Arc<Mutex<Vec<u8>>>>, eof: Arc<AtomicUsize>, paused: Arc<std::sync::atomic::AtomicBool>) {
    std::thread::spawn(move || {
        let mut buf = [0u8; 4096];
        loop {
            if paused.load(Ordering::SeqCst) {
                std::thread::sleep(Duration::from_millis(20));
                continue;
            }
            match r.read(&mut buf) {
                Ok(0) | Err(_) => break,
                Ok(n) => {
                    if let Some(s) = &sink {
                        s.lock().unwrap().extend_from_slice(&buf[..n])
                    }
                }
            }
        }
        eof.fetch_add(1, Ordering::SeqCst);
    });
}

enum Conn {
    Tls(Proc),
    Plain(Option<std::net::TcpStream>), // talks Modbus in clear
    Silent(Option<std::net::TcpStream>),
    Failed, // the TCP connect itself failed (port closed)
}

fn contains(hay: &[u8], needle: &[u8]) -> bool {
    hay.windows(needle.len()).any(|w| w == needle)
}

fn connect_from(src: Ipv4Addr, addr: SocketAddr) -> Option<std::net::TcpStream> {
    // std has no bind-before-connect: use libc through socket2-free plain calls
    unsafe {
        // close-on-exec: an `openssl s_client` child spawned later must not inherit this socket (the connection would
        // stay open after the harness closed it, until that child exits)
        let fd = libc::socket(libc::AF_INET, libc::SOCK_STREAM | libc::SOCK_CLOEXEC, 0);
        if fd < 0 {
            return None;
        }
        let mut sa: libc::sockaddr_in = std::mem::zeroed();
        sa.sin_family = libc::AF_INET as libc::sa_family_t;
        sa.sin_port = 0;
        sa.sin_addr = libc::in_addr { s_addr: u32::from_ne_bytes(src.octets()) };
        if libc::bind(fd, &sa as *const _ as *const libc::sockaddr, std::mem::size_of::<libc::sockaddr_in>() as u32) != 0 {
            libc::close(fd);
            return None;
        }
        let ip = match addr {
            SocketAddr::V4(a) => *a.ip(),
            _ => return None,
        };
        let mut da: libc::sockaddr_in = std::mem::zeroed();
        da.sin_family = libc::AF_INET as libc::sa_family_t;
        da.sin_port = addr.port().to_be();
        da.sin_addr = libc::in_addr { s_addr: u32::from_ne_bytes(ip.octets()) };
        if libc::connect(fd, &da as *const _ as *const libc::sockaddr, std::mem::size_of::<libc::sockaddr_in>() as u32) != 0 {
            libc::close(fd);
            return None;
        }
        use std::os::fd::FromRawFd;
        Some(std::net::TcpStream::from_raw_fd(fd))
    }
}

fn request(k: usize, tx: u16) -> [u8; 12] {
    let t = tx.to_be_bytes();
    let a = (k as u16).to_be_bytes();
    [t[0], t[1], 0, 0, 0, 6, 1, 3, a[0], a[1], 0, 1]
}
fn reply(tx: u16) -> [u8; 11] {
    let t = tx.to_be_bytes();
    [t[0], t[1], 0, 0, 0, 5, 1, 3, 2, 0, 42]
}

fn parse_filter(s: &str) -> Option<AddressFilter> {
    if s == "any" {
        return Some(AddressFilter::Any);
    }
    let (kind, rest) = s.split_once(':')?;
    match kind {
        "w" => Some(AddressFilter::WildcardIpv4(rest.parse().ok()?)),
        "x" => Some(AddressFilter::Exact(rest.parse().ok()?)),
        "s" => {
            let mut set = std::collections::HashSet::new();
            for p in rest.split(',') {
                set.insert(p.parse().ok()?);
            }
            Some(AddressFilter::AnyOf(set))
        }
        _ => None,
    }
}

fn scenario(rt: &tokio::runtime::Runtime, line: &str, certs: &str, openssl: &str, ip: Ipv4Addr) -> String {
    let parts: Vec<&str> = line.split_whitespace().collect();
    if parts.len() < 3 {
        return "BADLINE".to_string();
    }
    let Some(filter) = parse_filter(parts[0]) else { return "BADFILTER".to_string() };
    let max: usize = parts[1].parse().unwrap_or(1);
    let transport = parts[2];
    let ca2 = Path::new(certs).join("ca2");
    let seen = Arc::new(Mutex::new(Vec::new()));
    let mut handle = None;
    let mut addr = SocketAddr::from((ip, 0));
    for _ in 0..20 {
        let port = std::net::TcpListener::bind((ip, 0)).unwrap().local_addr().unwrap().port();
        addr = SocketAddr::from((ip, port));
        let map = ServerHandlerMap::single(UnitId::new(1), Handler.wrap());
        let res = if transport == "tcp" {
            rt.block_on(spawn_tcp_server_task(max, addr, map, filter.clone(), DecodeLevel::nothing()))
        } else {
            let cfg = match TlsServerConfig::new(&ca2.join("ca_cert.pem"), &ca2.join("server_cert.pem"), &ca2.join("server_key.pem"), None, MinTlsVersion::V1_2, CertificateMode::AuthorityBased) {
                Ok(c) => c,
                Err(e) => return format!("CONFIG:{e}"),
            };
            if transport == "tlsauthz" {
                let a: Arc<dyn AuthorizationHandler> = Arc::new(Authz { seen: seen.clone() });
                rt.block_on(spawn_tls_server_task_with_authz(max, addr, map, a, cfg, filter.clone(), DecodeLevel::nothing()))
            } else {
                rt.block_on(spawn_tls_server_task(max, addr, map, cfg, filter.clone(), DecodeLevel::nothing()))
            }
        };
        if let Ok(h) = res {
            handle = Some(h);
            break;
        }
    }
    if handle.is_none() {
        return "NOSERVER".to_string();
    }
    let mut conns: Vec<Conn> = Vec::new();
    let mut out: Vec<String> = Vec::new();
    let mut tx: u16 = 0;
    for op in &parts[3..] {
        let (code, rest) = op.split_at(1);
        match code {
            "C" => {
                let src: u8 = rest[..1].parse().unwrap_or(1);
                let kind = &rest[1..];
                let source = Ipv4Addr::new(127, 0, 0, src);
                match kind {
                    "p" => conns.push(match connect_from(source, addr) {
                        Some(s) => Conn::Plain(Some(s)),
                        None => Conn::Failed,
                    }),
                    "s" => conns.push(match connect_from(source, addr) {
                        Some(s) => Conn::Silent(Some(s)),
                        None => Conn::Failed,
                    }),
                    "g" | "v" | "b" | "l" => {
                        let (cert, key) = match kind {
                            "g" => (ca2.join("client_cert.pem"), ca2.join("client_key.pem")),
                            "v" => (ca2.join("client_otherrole_cert.pem"), ca2.join("client_otherrole_key.pem")),
                            "l" => (ca2.join("client_roleless_cert.pem"), ca2.join("client_roleless_key.pem")),
                            _ => (Path::new(certs).join("ss").join("client_cert.pem"), Path::new(certs).join("ss").join("client_key.pem")),
                        };
                        let mut cmd = Command::new(openssl);
                        cmd.args(["s_client", "-connect", &addr.to_string(), "-bind", &format!("{source}:0"), "-cert", cert.to_str().unwrap(), "-key", key.to_str().unwrap(), "-CAfile", ca2.join("ca_cert.pem").to_str().unwrap(), "-quiet"]);
                        match cmd.stdin(Stdio::piped()).stdout(Stdio::piped()).stderr(if std::env::var("FRONT_DEBUG").is_ok() { Stdio::inherit() } else { Stdio::piped() }).spawn() {
                            Ok(mut child) => {
                                let outbuf = Arc::new(Mutex::new(Vec::new()));
                                let eof = Arc::new(AtomicUsize::new(0));
                                let paused = Arc::new(std::sync::atomic::AtomicBool::new(false));
                                pump(child.stdout.take().unwrap(), Some(outbuf.clone()), eof.clone(), paused.clone());
                                match child.stderr.take() {
                                    Some(e) => pump(e, None, eof.clone(), Arc::new(std::sync::atomic::AtomicBool::new(false))),
                                    None => {
                                        eof.fetch_add(1, Ordering::SeqCst);
                                    }
                                }
                                let stdin = child.stdin.take();
                                conns.push(Conn::Tls(Proc { child, stdin, out: outbuf, eof, paused, flooded: false, last_item: String::new() }));
                            }
                            Err(_) => return "NOOPENSSL".to_string(),
                        }
                    }
                    _ => return format!("BADKIND:{kind}"),
                }
            }
            "X" => {
                let k: usize = rest.parse().unwrap_or(usize::MAX);
                if let Some(c) = conns.get_mut(k) {
                    match c {
                        Conn::Tls(p) => {
                            let _ = p.child.kill();
                            let _ = p.child.wait();
                            p.stdin = None;
                        }
                        Conn::Plain(s) | Conn::Silent(s) => *s = None,
                        Conn::Failed => {}
                    }
                }
            }
            "W" => {
                let k: usize = rest.parse().unwrap_or(usize::MAX);
                if let Some(Conn::Tls(p)) = conns.get_mut(k) {
                    if let Some(mut stdin) = p.stdin.take().filter(|_| !p.flooded && transport == "tlsauthz") {
                        p.paused.store(true, Ordering::SeqCst);
                        // openssl 3.5 s_client ends the connection when one read of its stdin fills its whole 16 KiB
                        // buffer: a one-page pipe keeps every read below that
                        unsafe {
                            use std::os::fd::AsRawFd;
                            libc::fcntl(stdin.as_raw_fd(), libc::F_SETPIPE_SZ, 4096);
                        }
                        // read 8 coils at 0, unit 1: denied by the authorization handler (only holding registers are allowed)
                        let one = [0u8, 1, 0, 0, 0, 6, 1, 1, 0, 0, 0, 8];
                        let chunk: Vec<u8> = one.iter().cycle().take(12 * 1000).copied().collect();
                        let progress = Arc::new(Mutex::new((Instant::now(), true)));
                        let pr = progress.clone();
                        // the writer keeps offering requests for as long as the process takes them
                        std::thread::spawn(move || loop {
                            let ok = stdin.write_all(&chunk).is_ok();
                            *pr.lock().unwrap() = (Instant::now(), ok);
                            if !ok {
                                break;
                            }
                        });
                        let start = Instant::now();
                        let mut blocked = false;
                        while start.elapsed() < Duration::from_secs(30) {
                            std::thread::sleep(Duration::from_millis(50));
                            let (t, ok) = *progress.lock().unwrap();
                            if !ok {
                                break;
                            }
                            if t.elapsed() >= Duration::from_millis(500) {
                                blocked = true;
                                break;
                            }
                        }
                        if !blocked {
                            for c in conns.iter_mut() {
                                if let Conn::Tls(p) = c {
                                    let _ = p.child.kill();
                                    let _ = p.child.wait();
                                }
                            }
                            return "NOFLOOD".to_string();
                        }
                        p.flooded = true;
                    }
                }
                continue;
            }
            "S" => {
                if let Some(h) = handle.as_ref() {
                    let _ = rt.block_on(h.shutdown());
                }
            }
            "H" => {
                handle = None;
            }
            _ => return format!("BADOP:{op}"),
        }
        std::thread::sleep(Duration::from_millis(60));
        // probe every connection that can talk
        seen.lock().unwrap().clear();
        let mut served: Vec<bool> = Vec::new();
        for (k, c) in conns.iter_mut().enumerate() {
            tx = tx.wrapping_add(1);
            let ok = match c {
                Conn::Tls(p) if p.flooded => matches!(p.child.try_wait(), Ok(None)),
                Conn::Tls(p) => {
                    let mut ok = false;
                    if let Some(stdin) = p.stdin.as_mut() {
                        let _ = stdin.write_all(&request(k, tx));
                        let _ = stdin.flush();
                        let end = Instant::now() + Duration::from_secs(8);
                        loop {
                            if contains(&p.out.lock().unwrap(), &reply(tx)) {
                                ok = true;
                                break;
                            }
                            if p.eof.load(Ordering::SeqCst) >= 2 || Instant::now() > end {
                                ok = contains(&p.out.lock().unwrap(), &reply(tx));
                                break;
                            }
                            std::thread::sleep(Duration::from_millis(3));
                        }
                        if !ok {
                            p.stdin = None; // the process has exited or the session is gone
                        }
                    }
                    ok
                }
                Conn::Plain(s) => {
                    let mut ok = false;
                    if let Some(sock) = s.as_mut() {
                        let _ = sock.set_read_timeout(Some(Duration::from_secs(4)));
                        if sock.write_all(&request(k, tx)).is_ok() {
                            let mut buf = [0u8; 11];
                            ok = sock.read_exact(&mut buf).is_ok() && buf == reply(tx);
                        }
                        if !ok {
                            *s = None;
                        }
                    }
                    ok
                }
                Conn::Silent(_) | Conn::Failed => false,
            };
            served.push(ok);
        }
        let roles = seen.lock().unwrap().clone();
        let mut items: Vec<String> = Vec::new();
        for (k, s) in served.iter().enumerate() {
            let item = if !*s {
                "-".to_string()
            } else if let Some(Conn::Tls(p)) = conns.get(k).filter(|c| matches!(c, Conn::Tls(p) if p.flooded)) {
                p.last_item.clone()
            } else {
                match roles.iter().find(|(a, _)| *a as usize == k) {
                    Some((_, r)) => format!("S:{r}"),
                    None => "S".to_string(),
                }
            };
            if let Some(Conn::Tls(p)) = conns.get_mut(k) {
                if !p.flooded {
                    p.last_item = item.clone();
                }
            }
            items.push(item);
        }
        out.push(items.join(","));
    }
    for c in conns.iter_mut() {
        if let Conn::Tls(p) = c {
            let _ = p.child.kill();
            let _ = p.child.wait();
        }
    }
    drop(handle);
    out.join("|")
}

pub fn main(args: &[String]) -> i32 {
    crate::util::quiet_panics();
    // sfio-rustls-config println!s on stdout: keep the result channel clean
    let mut result_out: std::fs::File = unsafe {
        use std::os::fd::FromRawFd;
        let saved = libc::dup(1);
        libc::dup2(2, 1);
        std::fs::File::from_raw_fd(saved)
    };
    if std::env::var("FRONT_DEBUG").is_ok() {
        let _ = tracing_subscriber::fmt().with_max_level(tracing::Level::INFO).with_writer(std::io::stderr).try_init();
    }
    let certs = args.first().cloned().unwrap_or_default();
    let openssl = args.get(1).cloned().unwrap_or_else(|| "/root/miniconda/bin/openssl".to_string());
    let lines: Vec<String> = crate::util::stdin_lines().collect();
    let n = lines.len();
    let lines = Arc::new(lines);
    let results = Arc::new(Mutex::new(vec![String::new(); n]));
    let next = Arc::new(AtomicUsize::new(0));
    let rt = Arc::new(tokio::runtime::Builder::new_multi_thread().worker_threads(4).enable_all().build().unwrap());
    let pid = std::process::id();
    let workers: Vec<_> = (0..4.min(n.max(1)))
        .map(|_| {
            let (lines, results, next, rt, certs, openssl) = (lines.clone(), results.clone(), next.clone(), rt.clone(), certs.clone(), openssl.clone());
            std::thread::spawn(move || loop {
                let k = next.fetch_add(1, Ordering::SeqCst);
                if k >= lines.len() {
                    break;
                }
                let ip = Ipv4Addr::new(127, 1 + (pid % 200) as u8, (k / 250 % 250) as u8, (k % 250 + 1) as u8);
                let line = lines[k].clone();
                let (rt2, c2, o2) = (rt.clone(), certs.clone(), openssl.clone());
                let r = std::panic::catch_unwind(std::panic::AssertUnwindSafe(move || scenario(&rt2, &line, &c2, &o2, ip))).unwrap_or_else(|_| "PANIC".to_string());
                results.lock().unwrap()[k] = r;
            })
        })
        .collect();
    for w in workers {
        let _ = w.join();
    }
    for r in results.lock().unwrap().iter() {
        let _ = writeln!(result_out, "{r}");
    }
    0
}
