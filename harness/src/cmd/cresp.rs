//! Client response handling: a request built through the public API is submitted to the real client
//! loop; once its frame is on the wire a reply ADU wrapping the given PDU is delivered as one chunk
//! (TCP: transaction id copied from the request; RTU: correct CRC) and the result of the request
//! future is printed.
//! args:        [--decode min|max]
//! input line:  F K U S C V PDU    (see clientdrv::parse_case; PDU hex, '-' = empty; F = T|R, optionally
//!              followed by the submit style: none = Channel futures, c = CallbackSession, x = FfiChannel)
//!              PDU may instead be a raw inbound script `raw:<hex>(+<hex>)*[/Z|/E]`: no ADU is built, each
//!              chunk is pushed verbatim on its own (the reader consumes chunk by chunk; `raw:` alone =
//!              nothing arrives), then /Z = end of stream, /E = read error ConnectionReset, neither = the
//!              stream stays pending (ResponseTimeout). The session of that framing is replaced after
//!              every raw case (also TCP, so its transaction id restarts at 0).
//! output line: REJECTED <err> | OK <..> <..> | OKX <idx:val,..> | ERR <err> | PANIC | BADLINE
//!   <err> for style x when the synchronous call failed: <ChannelFull|ChannelClosed|range error>/<cb>,
//!   <cb> = flat error name the callback received or `-` if it was not invoked; styles c/x also
//!   LOST (callback dropped uncalled) and HUNG (no callback within 3 s of virtual time)
//!
//! Reader state never leaks between cases: the RTU session is replaced after every case in which a
//! reply was delivered (the RTU parser derives the frame length from the reply itself, so a short or
//! long reply would otherwise leave bytes / parser state behind), and so is any session whose case
//! ended in ResponseTimeout. The TCP session persists otherwise (the reply always is exactly one
//! MBAP frame), so its transaction id advances from case to case.
use crate::clientdrv::{self as drv, Build, Case, Done, Driver, RawEnd};
use rodbus::RequestError;
use tokio::task::JoinError;

fn rejected(res: Result<Done, JoinError>, session_panicked: bool) -> String {
    match res {
        _ if session_panicked => "PANIC".to_string(),
        Err(e) if e.is_panic() => "PANIC".to_string(),
        Err(_) => "REJECTED CANCELLED".to_string(),
        Ok(d) => match drv::done_result(d) {
            Ok(_) => "REJECTED OK?".to_string(),
            Err(token) => format!("REJECTED {token}"),
        },
    }
}

async fn one(driver: &mut Driver, case: &Case) -> String {
    let prepared = match drv::build(case) {
        Build::Ready(p) => p,
        Build::Rejected(name) => return format!("REJECTED {name}"),
        Build::Panic => return "PANIC".to_string(),
    };
    let sess = driver.session(case).await;
    let wire = sess.wire.clone();
    wire.take_out();
    let handle = drv::submit(sess.channel.clone(), drv::param(case), prepared, case.style);

    // wait (without letting the paused clock advance) until the request frame is on the wire or the
    // request has completed without one
    let mut frame: Option<Vec<u8>> = None;
    for _ in 0..100_000 {
        tokio::task::yield_now().await;
        let mut out = wire.take_out();
        if !out.is_empty() {
            frame = Some(out.swap_remove(0));
            break;
        }
        if handle.is_finished() {
            break;
        }
    }

    let frame = match frame {
        Some(f) => f,
        None => {
            let res = handle.await;
            let session_panicked = driver.after_case(case.rtu, false).await;
            // a frame written at the very last moment would be a driver bug: report it
            if !wire.take_out().is_empty() {
                eprintln!("cresp: late write after the request completed");
            }
            return rejected(res, session_panicked);
        }
    };

    match &case.raw {
        None => wire.push(&drv::reply_adu(case, &frame)),
        Some(raw) => {
            for chunk in &raw.chunks {
                wire.push(chunk);
                crate::wire::settle().await;
            }
            match raw.end {
                RawEnd::Pending => {}
                RawEnd::Eof => wire.set_eof(),
                RawEnd::Error => wire.set_read_error(std::io::ErrorKind::ConnectionReset),
            }
        }
    }
    let res = handle.await;
    let timed_out = matches!(res, Ok(Done::Result(Err(RequestError::ResponseTimeout))) | Ok(Done::Hung));
    let session_panicked = driver.after_case(case.rtu, case.rtu || timed_out || case.raw.is_some()).await;
    wire.take_out();
    match res {
        _ if session_panicked => "PANIC".to_string(),
        Err(e) if e.is_panic() => "PANIC".to_string(),
        Err(_) => "ERR CANCELLED".to_string(),
        Ok(d) => match drv::done_result(d) {
            Ok(o) => match std::panic::catch_unwind(std::panic::AssertUnwindSafe(|| drv::format_outcome(&o))) {
                Ok(s) => s,
                Err(_) => "PANIC".to_string(),
            },
            Err(token) => format!("ERR {token}"),
        },
    }
}

pub fn main(args: &[String]) -> i32 {
    crate::util::quiet_panics();
    let opts = drv::parse_opts(args);
    let rt = drv::runtime();
    rt.block_on(async {
        let mut driver = Driver::new(opts.decode);
        for line in crate::util::stdin_lines() {
            let case = match std::panic::catch_unwind(|| drv::parse_case(&line, true)) {
                Ok(Ok(c)) => c,
                Ok(Err(e)) => {
                    eprintln!("cresp: bad line {line:?}: {e}");
                    println!("BADLINE");
                    continue;
                }
                Err(_) => {
                    eprintln!("cresp: panic while parsing {line:?}");
                    println!("BADLINE");
                    continue;
                }
            };
            let s = one(&mut driver, &case).await;
            println!("{s}");
        }
    });
    0
}
