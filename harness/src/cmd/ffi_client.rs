//! C18 (client half): the eight client requests through the C ABI (extern "C" functions of the rlib) and
//! through the Rust API against the same scripted TCP peer; every completion-callback invocation is logged.
//! input line: <scenario> <op> <start> <n> [<extra>]
//!   op = rc | rd | rh | ri | wc | wr | wmc | wmr      (n = count for reads / value for wc,wr / number of values for wmc,wmr)
//!   scenario:
//!     req      one request against the scripted peer; its behaviour is selected by <start>:
//!                0..255 exception reply with that code; 1000 no reply (timeout); 1001 malformed reply;
//!                1002 bad MBAP protocol id; 1003 peer closes; 1004 reply with another function code;
//!                >= 2000 correct reply
//!     noconn   request on an enabled channel whose peer port is closed
//!     shutdown request in flight (peer silent), then the channel is destroyed (C ABI) / shut down (Rust API)
//!     shutdownq request 1 in flight, requests 2 and 3 queued, then the runtime is destroyed
//!     qfull    queue of size 1: request 1 in flight, request 2 queued, request 3 rejected; then destroy
//!     badparam <extra> = null | zero | overflow | limit | nullitems | toomany | empty
//!     states   client state listener until Connected, then destroy
//!     gate     <extra> = enable | disable: queue of ONE; a completion callback PARKS the channel task, a second request fills the
//!              queue, enable (disable) is then rejected with TooManyRequests; the callback is released and the call is repeated.
//!              enable: channel never enabled, a listening peer; disable: connected channel, silent peer.
//!              output: ffi:<rc of request 2>/<rc of the rejected call>/<rc of the repeated call>/<1 if the listener then saw Connected (Disabled), else 0> rust:n/a
//!     notify   op = rh (ignored), <extra> = rtu | tcp, <n> = number of notifications to collect after enable:
//!              rtu: a serial path that does not exist (every open fails), tcp: a refused port; small retry delays.
//!              output: ffi:Ok/<first n states the C listener got, joined by '>'> rust:<the same for the Rust API listener>
//!     reuse    op = wmc | wmr, <extra> = <k> or <k>+a: ONE rodbus_bit_list / rodbus_register_list object with n values is
//!              passed to k successive write-multiple calls (each awaited); with +a one more value is added to the object
//!              between two calls. The Rust API twin issues the same k calls with freshly built vectors.
//!              output: ffi:<rc>/<events>;... rust:<result>;... wire:<request ADUs the peer got, joined by ','>/<.. Rust API>
//! output: ffi:<return code>/<callback events joined by +>[;...] rust:<result> [wire:<first request ADU the peer got from the C-ABI client>/<.. from the Rust API client>  (req only)]
//!   events: complete[:i=v,...] | failure:<ffi RequestError name>
use super::p5_common::*;
use rodbus::client::*;
use rodbus::*;
use std::net::IpAddr;
use std::os::raw::{c_int, c_void};
use std::sync::atomic::{AtomicUsize, Ordering};
use std::sync::{Arc, Mutex};
use std::time::{Duration, Instant};

// ------------------------------------------------------------------------------------------------ scripted peer
struct Peer {
    port: u16,
    seen: Arc<AtomicUsize>,
    /// the first request ADU this peer received, as sent on the wire
    first: Arc<Mutex<Option<Vec<u8>>>>,
    /// every request ADU, in order of arrival
    all: Arc<Mutex<Vec<Vec<u8>>>>,
}

async fn peer_conn(mut s: tokio::net::TcpStream, seen: Arc<AtomicUsize>, first: Arc<Mutex<Option<Vec<u8>>>>, all: Arc<Mutex<Vec<Vec<u8>>>>) {
    use tokio::io::{AsyncReadExt, AsyncWriteExt};
    loop {
        let mut h = [0u8; 7];
        if s.read_exact(&mut h).await.is_err() {
            return;
        }
        let len = u16::from_be_bytes([h[4], h[5]]) as usize;
        if len < 2 || len > 254 {
            return;
        }
        let mut pdu = vec![0u8; len - 1];
        if s.read_exact(&mut pdu).await.is_err() {
            return;
        }
        {
            let mut adu = h.to_vec();
            adu.extend(&pdu);
            all.lock().unwrap().push(adu.clone());
            let mut f = first.lock().unwrap();
            if f.is_none() {
                *f = Some(adu);
            }
        }
        seen.fetch_add(1, Ordering::SeqCst);
        let fc = pdu[0];
        let start = u16::from_be_bytes([pdu[1], pdu[2]]);
        let qty = u16::from_be_bytes([pdu[3], pdu[4]]);
        let mut proto = [0u8, 0u8];
        let reply: Vec<u8> = match start {
            0..=255 => vec![fc | 0x80, start as u8],
            1000 => continue,
            1003 => return,
            1004 => vec![fc ^ 0x10, 0, 0, 0, 0],
            _ => {
                let mut r = match fc {
                    1 | 2 => {
                        let nbytes = (qty as usize + 7) / 8;
                        let mut v = vec![fc, nbytes as u8];
                        let mut bytes = vec![0u8; nbytes];
                        for i in 0..qty as usize {
                            if (start as usize + i + h[6] as usize) % 3 == 0 {
                                bytes[i / 8] |= 1 << (i % 8);
                            }
                        }
                        v.extend(bytes);
                        v
                    }
                    3 | 4 => {
                        let mut v = vec![fc, (qty * 2) as u8];
                        for i in 0..qty {
                            v.extend(start.wrapping_add(i).wrapping_mul(3).wrapping_add(h[6] as u16).to_be_bytes());
                        }
                        v
                    }
                    _ => pdu[..5].to_vec(),
                };
                if start == 1001 {
                    match fc {
                        1..=4 => {
                            r.pop();
                        }
                        _ => r[2] = r[2].wrapping_add(1),
                    }
                }
                if start == 1002 {
                    proto = [0, 5];
                }
                r
            }
        };
        let mut out = vec![h[0], h[1], proto[0], proto[1]];
        out.extend(((reply.len() + 1) as u16).to_be_bytes());
        out.push(h[6]);
        out.extend(reply);
        if s.write_all(&out).await.is_err() {
            return;
        }
    }
}

fn start_peer(rt: &tokio::runtime::Runtime) -> Peer {
    let seen = Arc::new(AtomicUsize::new(0));
    let listener = rt.block_on(tokio::net::TcpListener::bind("127.0.0.1:0")).expect("bind");
    let port = listener.local_addr().unwrap().port();
    let seen2 = seen.clone();
    let first = Arc::new(Mutex::new(None));
    let first2 = first.clone();
    let all = Arc::new(Mutex::new(Vec::new()));
    let all2 = all.clone();
    rt.spawn(async move {
        while let Ok((s, _)) = listener.accept().await {
            tokio::spawn(peer_conn(s, seen2.clone(), first2.clone(), all2.clone()));
        }
    });
    Peer { port, seen, first, all }
}

/// the unit id used for a request: varies with the case so that a C ABI that dropped or altered it would
/// obtain other values from the peer than the Rust API client
pub(super) fn unit_of(start: u16, n: u16) -> u8 {
    ((start as u32 + 7 * n as u32) % 247 + 1) as u8
}

pub(super) fn wait_until(deadline: Duration, mut f: impl FnMut() -> bool) -> bool {
    let t0 = Instant::now();
    while t0.elapsed() < deadline {
        if f() {
            return true;
        }
        std::thread::sleep(Duration::from_millis(2));
    }
    f()
}

// ------------------------------------------------------------------------------------------------ C ABI side
#[derive(Default)]
pub(super) struct Slot {
    pub(super) events: Vec<String>,
    pub(super) destroyed: u32,
}

extern "C" fn bits_complete(it: *mut rodbus_ffi::BitValueIterator, ctx: *mut c_void) {
    let mut v = Vec::new();
    unsafe {
        loop {
            let p = ffi::rodbus_bit_value_iterator_next(it);
            if p.is_null() {
                break;
            }
            v.push(format!("{}={}", (*p).index, (*p).value as u8));
        }
        ctx_ref::<Slot>(ctx).lock().unwrap().events.push(format!("complete:{}", v.join(",")));
    }
}
extern "C" fn regs_complete(it: *mut rodbus_ffi::RegisterValueIterator, ctx: *mut c_void) {
    let mut v = Vec::new();
    unsafe {
        loop {
            let p = ffi::rodbus_register_value_iterator_next(it);
            if p.is_null() {
                break;
            }
            v.push(format!("{}={}", (*p).index, (*p).value));
        }
        ctx_ref::<Slot>(ctx).lock().unwrap().events.push(format!("complete:{}", v.join(",")));
    }
}
extern "C" fn write_complete(_nothing: c_int, ctx: *mut c_void) {
    unsafe { ctx_ref::<Slot>(ctx) }.lock().unwrap().events.push("complete".into());
}
extern "C" fn on_failure(err: c_int, ctx: *mut c_void) {
    let name = std::panic::catch_unwind(|| format!("{:?}", ffi::RequestError::from(err))).unwrap_or_else(|_| format!("#{err}"));
    unsafe { ctx_ref::<Slot>(ctx) }.lock().unwrap().events.push(format!("failure:{name}"));
}
extern "C" fn on_destroy(ctx: *mut c_void) {
    unsafe { ctx_ref::<Slot>(ctx) }.lock().unwrap().destroyed += 1;
}

#[derive(Default)]
pub(super) struct States {
    pub(super) seq: Vec<String>,
}
extern "C" fn on_state(state: c_int, ctx: *mut c_void) {
    let name = std::panic::catch_unwind(|| format!("{:?}", ffi::ClientState::from(state))).unwrap_or_else(|_| format!("#{state}"));
    unsafe { ctx_ref::<States>(ctx) }.lock().unwrap().seq.push(name);
}

pub(super) struct FfiChan {
    pub(super) ch: *mut rodbus_ffi::ClientChannel,
    pub(super) states: &'static Mutex<States>,
}

pub(super) fn ffi_channel(ffi_rt: &FfiRuntime, port: u16, queue: u16) -> FfiChan {
    let (states, sctx) = leak_ctx(States::default());
    let host = cstr("127.0.0.1");
    let mut ch: *mut rodbus_ffi::ClientChannel = std::ptr::null_mut();
    let rc = unsafe {
        ffi::rodbus_client_channel_create_tcp(
            ffi_rt.0,
            host.as_ptr(),
            port,
            queue,
            ffi::RetryStrategy {
                min_delay: 10,
                max_delay: 40,
            },
            decode_nothing(),
            ffi::ClientStateListener {
                on_change: Some(on_state),
                on_destroy: Some(noop_destroy),
                ctx: sctx,
            },
            &mut ch,
        )
    };
    assert_eq!(rc, 0, "client_channel_create_tcp");
    let rc = unsafe { ffi::rodbus_client_channel_enable(ch) };
    assert_eq!(rc, 0, "client_channel_enable");
    FfiChan { ch, states }
}

pub(super) fn ffi_connected(c: &FfiChan) -> bool {
    wait_until(Duration::from_secs(10), || c.states.lock().unwrap().seq.iter().any(|s| s == "Connected"))
}

/// issue one request; returns (return code name, slot)
pub(super) unsafe fn ffi_request(ch: *mut rodbus_ffi::ClientChannel, op: &str, start: u16, n: u16, timeout_ms: u64, null_items: bool) -> (String, &'static Mutex<Slot>) {
    let (slot, ctx) = leak_ctx(Slot::default());
    let param = ffi::RequestParam {
        unit_id: unit_of(start, n),
        timeout: timeout_ms,
    };
    let range = ffi::AddressRange { start, count: n };
    let bits = ffi::BitReadCallback {
        on_complete: Some(bits_complete),
        on_failure: Some(on_failure),
        on_destroy: Some(on_destroy),
        ctx,
    };
    let regs = ffi::RegisterReadCallback {
        on_complete: Some(regs_complete),
        on_failure: Some(on_failure),
        on_destroy: Some(on_destroy),
        ctx,
    };
    let wcb = ffi::WriteCallback {
        on_complete: Some(write_complete),
        on_failure: Some(on_failure),
        on_destroy: Some(on_destroy),
        ctx,
    };
    let reset = || slot.lock().unwrap().destroyed = 0;
    let rc = match op {
        "rc" => {
            drop(regs);
            drop(wcb);
            reset();
            ffi::rodbus_client_channel_read_coils(ch, param, range, bits)
        }
        "rd" => {
            drop(regs);
            drop(wcb);
            reset();
            ffi::rodbus_client_channel_read_discrete_inputs(ch, param, range, bits)
        }
        "rh" => {
            drop(bits);
            drop(wcb);
            reset();
            ffi::rodbus_client_channel_read_holding_registers(ch, param, range, regs)
        }
        "ri" => {
            drop(bits);
            drop(wcb);
            reset();
            ffi::rodbus_client_channel_read_input_registers(ch, param, range, regs)
        }
        "wc" => {
            drop(bits);
            drop(regs);
            reset();
            ffi::rodbus_client_channel_write_single_coil(ch, param, ffi::BitValue { index: start, value: n != 0 }, wcb)
        }
        "wr" => {
            drop(bits);
            drop(regs);
            reset();
            ffi::rodbus_client_channel_write_single_register(ch, param, ffi::RegisterValue { index: start, value: n }, wcb)
        }
        "wmc" => {
            drop(bits);
            drop(regs);
            reset();
            let list = ffi::rodbus_bit_list_create(n as u32);
            for i in 0..n {
                ffi::rodbus_bit_list_add(list, i % 2 == 0);
            }
            let rc = ffi::rodbus_client_channel_write_multiple_coils(ch, param, start, if null_items { std::ptr::null_mut() } else { list }, wcb);
            ffi::rodbus_bit_list_destroy(list);
            rc
        }
        "wmr" => {
            drop(bits);
            drop(regs);
            reset();
            let list = ffi::rodbus_register_list_create(n as u32);
            for i in 0..n {
                ffi::rodbus_register_list_add(list, i.wrapping_mul(257));
            }
            let rc = ffi::rodbus_client_channel_write_multiple_registers(ch, param, start, if null_items { std::ptr::null_mut() } else { list }, wcb);
            ffi::rodbus_register_list_destroy(list);
            rc
        }
        _ => panic!("op"),
    };
    (param_error_name(rc), slot)
}

pub(super) fn slot_events(slot: &Mutex<Slot>, wait: Duration) -> String {
    wait_until(wait, || !slot.lock().unwrap().events.is_empty());
    std::thread::sleep(Duration::from_millis(40)); // a second invocation would show up now
    let s = slot.lock().unwrap();
    if s.events.is_empty() {
        "none".into()
    } else {
        s.events.join("+")
    }
}

// ------------------------------------------------------------------------------------------------ Rust API side
pub(super) fn err_name(e: &RequestError) -> String {
    match e {
        RequestError::Io(_) => "Io".into(),
        RequestError::Exception(x) => format!("Exception({x:?})"),
        RequestError::BadRequest(_) => "BadRequest".into(),
        RequestError::BadFrame(_) => "BadFrame".into(),
        RequestError::BadResponse(_) => "BadResponse".into(),
        RequestError::Internal(_) => "Internal".into(),
        RequestError::ResponseTimeout => "ResponseTimeout".into(),
        RequestError::NoConnection => "NoConnection".into(),
        RequestError::Shutdown => "Shutdown".into(),
    }
}

struct RustStates(Arc<Mutex<Vec<String>>>);
impl Listener<ClientState> for RustStates {
    fn update(&mut self, value: ClientState) -> MaybeAsync<()> {
        let name = format!("{value:?}");
        let name = name.split('(').next().unwrap().to_string();
        self.0.lock().unwrap().push(name);
        MaybeAsync::ready(())
    }
}

pub(super) fn rust_channel(rt: &tokio::runtime::Runtime, port: u16, queue: usize) -> (Channel, Arc<Mutex<Vec<String>>>) {
    let states = Arc::new(Mutex::new(Vec::new()));
    let _g = rt.enter();
    let ch = spawn_tcp_client_task(
        HostAddr::ip(IpAddr::from([127, 0, 0, 1]), port),
        queue,
        rodbus::doubling_retry_strategy(Duration::from_millis(10), Duration::from_millis(40)),
        DecodeLevel::nothing(),
        Some(Box::new(RustStates(states.clone()))),
    );
    rt.block_on(ch.enable()).unwrap();
    (ch, states)
}

async fn rust_request(ch: &Channel, op: &str, start: u16, n: u16, timeout_ms: u64) -> String {
    let param = RequestParam::new(UnitId::new(unit_of(start, n)), Duration::from_millis(timeout_ms));
    fn bits(r: Result<Vec<Indexed<bool>>, RequestError>) -> String {
        match r {
            Ok(v) => format!("OK:{}", v.iter().map(|x| format!("{}={}", x.index, x.value as u8)).collect::<Vec<_>>().join(",")),
            Err(e) => err_name(&e),
        }
    }
    fn regs(r: Result<Vec<Indexed<u16>>, RequestError>) -> String {
        match r {
            Ok(v) => format!("OK:{}", v.iter().map(|x| format!("{}={}", x.index, x.value)).collect::<Vec<_>>().join(",")),
            Err(e) => err_name(&e),
        }
    }
    fn unit<T>(r: Result<T, RequestError>) -> String {
        match r {
            Ok(_) => "OK".into(),
            Err(e) => err_name(&e),
        }
    }
    let range = match op {
        "rc" | "rd" | "rh" | "ri" => match AddressRange::try_from(start, n) {
            Ok(r) => Some(r),
            Err(e) => return format!("InvalidRange:{e:?}"),
        },
        _ => None,
    };
    match op {
        "rc" => bits(ch.read_coils(param, range.unwrap()).await),
        "rd" => bits(ch.read_discrete_inputs(param, range.unwrap()).await),
        "rh" => regs(ch.read_holding_registers(param, range.unwrap()).await),
        "ri" => regs(ch.read_input_registers(param, range.unwrap()).await),
        "wc" => unit(ch.write_single_coil(param, Indexed::new(start, n != 0)).await),
        "wr" => unit(ch.write_single_register(param, Indexed::new(start, n)).await),
        "wmc" => match WriteMultiple::from(start, (0..n).map(|i| i % 2 == 0).collect()) {
            Ok(w) => unit(ch.write_multiple_coils(param, w).await),
            Err(e) => format!("InvalidRequest:{e:?}"),
        },
        "wmr" => match WriteMultiple::from(start, (0..n).map(|i| i.wrapping_mul(257)).collect()) {
            Ok(w) => unit(ch.write_multiple_registers(param, w).await),
            Err(e) => format!("InvalidRequest:{e:?}"),
        },
        _ => "op?".into(),
    }
}

// ------------------------------------------------------------------------------------------------ scenarios
fn scenario(rt: &tokio::runtime::Runtime, ffi_rt: &FfiRuntime, line: &str) -> String {
    let p: Vec<&str> = line.split_whitespace().collect();
    if p.len() < 4 {
        return "FAIL:syntax".into();
    }
    let (sc, op, start, n) = (p[0], p[1], p[2].parse::<u16>().unwrap(), p[3].parse::<u16>().unwrap());
    let extra = p.get(4).copied().unwrap_or("");
    match sc {
        "req" => {
            let timeout = if start == 1000 { 150 } else { 5000 };
            let peer = start_peer(rt);
            let c = ffi_channel(ffi_rt, peer.port, 4);
            if !ffi_connected(&c) {
                return "FAIL:ffi never connected".into();
            }
            let (rc, slot) = unsafe { ffi_request(c.ch, op, start, n, timeout, false) };
            let ev = slot_events(slot, Duration::from_secs(10));
            unsafe { ffi::rodbus_client_channel_destroy(c.ch) };
            let peer2 = start_peer(rt);
            let (ch, states) = rust_channel(rt, peer2.port, 4);
            wait_until(Duration::from_secs(10), || states.lock().unwrap().iter().any(|s| s == "Connected"));
            let r = rt.block_on(rust_request(&ch, op, start, n, timeout));
            let w = |p: &Peer| p.first.lock().unwrap().as_ref().map(|b| crate::util::hex(b)).unwrap_or_else(|| "-".into());
            format!("ffi:{rc}/{ev} rust:{r} wire:{}/{}", w(&peer), w(&peer2))
        }
        "noconn" => {
            let closed = ClosedPort::new(); // nothing listens there, nobody else can take it
            let port = closed.port;
            let c = ffi_channel(ffi_rt, port, 4);
            // wait for the first failed connect so that the channel is in its fail-fast state
            wait_until(Duration::from_secs(5), || c.states.lock().unwrap().seq.iter().any(|s| s == "WaitAfterFailedConnect"));
            let (rc, slot) = unsafe { ffi_request(c.ch, op, start, n, 1000, false) };
            let ev = slot_events(slot, Duration::from_secs(5));
            unsafe { ffi::rodbus_client_channel_destroy(c.ch) };
            let (ch, states) = rust_channel(rt, port, 4);
            wait_until(Duration::from_secs(5), || states.lock().unwrap().iter().any(|s| s == "WaitAfterFailedConnect"));
            let r = rt.block_on(rust_request(&ch, op, start, n, 1000));
            format!("ffi:{rc}/{ev} rust:{r}")
        }
        "shutdown" => {
            // C ABI: the runtime is destroyed while a request is in flight (own runtime for this scenario)
            let peer = start_peer(rt);
            let own = ffi_runtime(2);
            let c = ffi_channel(&own, peer.port, 4);
            if !ffi_connected(&c) {
                return "FAIL:ffi never connected".into();
            }
            let (rc, slot) = unsafe { ffi_request(c.ch, op, 1000, n, 60_000, false) };
            wait_until(Duration::from_secs(5), || peer.seen.load(Ordering::SeqCst) >= 1);
            let before = slot.lock().unwrap().events.len();
            unsafe { ffi::rodbus_runtime_destroy(own.0) };
            let ev = slot_events(slot, Duration::from_secs(10));
            // the channel outlives its task: a further request finds the queue closed
            let (rc2, slot2) = unsafe { ffi_request(c.ch, op, 1000, n, 1000, false) };
            let ev2 = slot_events(slot2, Duration::from_secs(5));
            unsafe { ffi::rodbus_client_channel_destroy(c.ch) };
            // Rust API: the channel task lives on its own runtime, which is shut down; the caller awaits elsewhere
            let peer2 = start_peer(rt);
            let own_rt = tokio::runtime::Builder::new_multi_thread().worker_threads(2).enable_all().build().unwrap();
            let (ch, states) = rust_channel(&own_rt, peer2.port, 4);
            wait_until(Duration::from_secs(10), || states.lock().unwrap().iter().any(|s| s == "Connected"));
            let ch2 = ch.clone();
            let op2 = op.to_string();
            let pending = rt.spawn(async move { rust_request(&ch2, &op2, 1000, n, 60_000).await });
            wait_until(Duration::from_secs(5), || peer2.seen.load(Ordering::SeqCst) >= 1);
            own_rt.shutdown_background();
            let r = rt.block_on(async { tokio::time::timeout(Duration::from_secs(10), pending).await });
            let r = match r {
                Ok(Ok(s)) => s,
                _ => "pending-forever".into(),
            };
            // shutdown_background tears the task down asynchronously: wait until the channel reports it gone
            // (a request racing the teardown is not what this scenario is about)
            wait_until(Duration::from_secs(10), || rt.block_on(ch.enable()).is_err());
            let r2 = rt.block_on(async { tokio::time::timeout(Duration::from_secs(10), rust_request(&ch, op, 1000, n, 1000)).await });
            let r2 = r2.unwrap_or_else(|_| "pending-forever".into());
            format!("ffi:{rc}/before={before}/{ev};{rc2}/{ev2} rust:{r};{r2}")
        }
        "shutdownq" => {
            // the runtime is destroyed while one request is in flight AND two more wait in the queue
            let peer = start_peer(rt);
            let own = ffi_runtime(2);
            let c = ffi_channel(&own, peer.port, 4);
            if !ffi_connected(&c) {
                return "FAIL:ffi never connected".into();
            }
            let (rc1, s1) = unsafe { ffi_request(c.ch, op, 1000, n, 60_000, false) };
            wait_until(Duration::from_secs(5), || peer.seen.load(Ordering::SeqCst) >= 1);
            let (rc2, s2) = unsafe { ffi_request(c.ch, op, 1000, n, 60_000, false) };
            let (rc3, s3) = unsafe { ffi_request(c.ch, op, 1000, n, 60_000, false) };
            let before = s1.lock().unwrap().events.len() + s2.lock().unwrap().events.len() + s3.lock().unwrap().events.len();
            unsafe { ffi::rodbus_runtime_destroy(own.0) };
            let e1 = slot_events(s1, Duration::from_secs(10));
            let e2 = slot_events(s2, Duration::from_secs(10));
            let e3 = slot_events(s3, Duration::from_secs(10));
            unsafe { ffi::rodbus_client_channel_destroy(c.ch) };
            std::thread::sleep(Duration::from_millis(40));
            let after = format!("{}/{}/{}", s1.lock().unwrap().events.len(), s2.lock().unwrap().events.len(), s3.lock().unwrap().events.len());
            format!("ffi:{rc1}/{e1};{rc2}/{e2};{rc3}/{e3};before={before};after-destroy={after} rust:n/a")
        }
        "qfull" => {
            let peer = start_peer(rt);
            let c = ffi_channel(ffi_rt, peer.port, 1);
            if !ffi_connected(&c) {
                return "FAIL:ffi never connected".into();
            }
            let (rc1, s1) = unsafe { ffi_request(c.ch, op, 1000, n, 3000, false) };
            wait_until(Duration::from_secs(5), || peer.seen.load(Ordering::SeqCst) >= 1);
            let (rc2, s2) = unsafe { ffi_request(c.ch, op, 1000, n, 3000, false) };
            let (rc3, s3) = unsafe { ffi_request(c.ch, op, 1000, n, 3000, false) };
            let e3 = slot_events(s3, Duration::from_secs(5));
            let pending = format!("{}/{}", s1.lock().unwrap().events.len(), s2.lock().unwrap().events.len());
            unsafe { ffi::rodbus_client_channel_destroy(c.ch) };
            let e1 = slot_events(s1, Duration::from_secs(10));
            let e2 = slot_events(s2, Duration::from_secs(10));
            format!("ffi:{rc1}/{e1};{rc2}/{e2};{rc3}/{e3};pending-before-destroy={pending} rust:n/a")
        }
        "gate" => {
            #[derive(Default)]
            struct Gate {
                entered: bool,
                release: bool,
                events: Vec<String>,
            }
            extern "C" fn gate_failure(err: c_int, ctx: *mut c_void) {
                let g = unsafe { ctx_ref::<Gate>(ctx) };
                {
                    let mut s = g.lock().unwrap();
                    s.entered = true;
                    s.events.push(format!("{err}"));
                }
                let t0 = Instant::now();
                while !g.lock().unwrap().release && t0.elapsed() < Duration::from_secs(15) {
                    std::thread::sleep(Duration::from_millis(2));
                }
            }
            extern "C" fn gate_regs(_it: *mut rodbus_ffi::RegisterValueIterator, ctx: *mut c_void) {
                unsafe { ctx_ref::<Gate>(ctx) }.lock().unwrap().entered = true;
            }
            let disable = extra == "disable";
            let peer = start_peer(rt);
            let (fstates, sctx) = leak_ctx(States::default());
            let host = cstr("127.0.0.1");
            let mut ch: *mut rodbus_ffi::ClientChannel = std::ptr::null_mut();
            let rc = unsafe {
                ffi::rodbus_client_channel_create_tcp(
                    ffi_rt.0,
                    host.as_ptr(),
                    peer.port,
                    1,
                    ffi::RetryStrategy { min_delay: 50, max_delay: 50 },
                    decode_nothing(),
                    ffi::ClientStateListener { on_change: Some(on_state), on_destroy: Some(noop_destroy), ctx: sctx },
                    &mut ch,
                )
            };
            if rc != 0 {
                return "FAIL:create".into();
            }
            let seen = |name: &str| fstates.lock().unwrap().seq.iter().any(|s| s == name);
            if disable {
                unsafe { ffi::rodbus_client_channel_enable(ch) };
                if !wait_until(Duration::from_secs(10), || seen("Connected")) {
                    return "FAIL:never connected".into();
                }
            }
            let (gate, gctx) = leak_ctx(Gate::default());
            // request 1: fails (NoConnection while disabled / ResponseTimeout from the silent peer, start 1000) and parks the task in its callback
            let rc1 = unsafe {
                ffi::rodbus_client_channel_read_holding_registers(
                    ch,
                    ffi::RequestParam { unit_id: 1, timeout: 200 },
                    ffi::AddressRange { start: 1000, count: 1 },
                    ffi::RegisterReadCallback { on_complete: Some(gate_regs), on_failure: Some(gate_failure), on_destroy: Some(noop_destroy), ctx: gctx },
                )
            };
            if rc1 != 0 || !wait_until(Duration::from_secs(10), || gate.lock().unwrap().entered) {
                gate.lock().unwrap().release = true;
                return "FAIL:gate".into();
            }
            let (rc2, _slot2) = unsafe { ffi_request(ch, "rh", 1000, 1, 200, false) };
            let call = |ch| unsafe { if disable { ffi::rodbus_client_channel_disable(ch) } else { ffi::rodbus_client_channel_enable(ch) } };
            let first = param_error_name(call(ch));
            gate.lock().unwrap().release = true;
            // repeat until it is no longer rejected for a full queue (the task drains the queue now)
            let mut second = String::new();
            for _ in 0..200 {
                second = param_error_name(call(ch));
                if second != "TooManyRequests" {
                    break;
                }
                std::thread::sleep(Duration::from_millis(10));
            }
            let reached = wait_until(Duration::from_secs(3), || if disable { fstates.lock().unwrap().seq.iter().skip_while(|s| *s != "Connected").any(|s| s == "Disabled") } else { seen("Connected") });
            unsafe { ffi::rodbus_client_channel_destroy(ch) };
            format!("ffi:{rc2}/{first}/{second}/{} rust:n/a", reached as u8)
        }
        "notify" => {
            let want = n as usize;
            extern "C" fn on_port(state: c_int, ctx: *mut c_void) {
                let name = std::panic::catch_unwind(|| format!("{:?}", ffi::PortState::from(state))).unwrap_or_else(|_| format!("#{state}"));
                unsafe { ctx_ref::<States>(ctx) }.lock().unwrap().seq.push(name);
            }
            struct RustPort(Arc<Mutex<Vec<String>>>);
            impl Listener<PortState> for RustPort {
                fn update(&mut self, value: PortState) -> MaybeAsync<()> {
                    let name = format!("{value:?}");
                    self.0.lock().unwrap().push(name.split('(').next().unwrap().to_string());
                    MaybeAsync::ready(())
                }
            }
            let closed = ClosedPort::new();
            let path = "/dev/verif-no-such-serial-port";
            let (fstates, sctx) = leak_ctx(States::default());
            let mut ch: *mut rodbus_ffi::ClientChannel = std::ptr::null_mut();
            let retry = ffi::RetryStrategy { min_delay: 20, max_delay: 40 };
            let rc = unsafe {
                if extra == "rtu" {
                    let cpath = cstr(path);
                    ffi::rodbus_client_channel_create_rtu(
                        ffi_rt.0,
                        cpath.as_ptr(),
                        ffi::SerialPortSettingsFields {
                            baud_rate: 9600,
                            data_bits: ffi::DataBits::Eight,
                            flow_control: ffi::FlowControl::None,
                            parity: ffi::Parity::None,
                            stop_bits: ffi::StopBits::One,
                        }
                        .into(),
                        4,
                        retry,
                        decode_nothing(),
                        ffi::PortStateListener { on_change: Some(on_port), on_destroy: Some(noop_destroy), ctx: sctx },
                        &mut ch,
                    )
                } else {
                    let host = cstr("127.0.0.1");
                    ffi::rodbus_client_channel_create_tcp(
                        ffi_rt.0,
                        host.as_ptr(),
                        closed.port,
                        4,
                        retry,
                        decode_nothing(),
                        ffi::ClientStateListener { on_change: Some(on_state), on_destroy: Some(noop_destroy), ctx: sctx },
                        &mut ch,
                    )
                }
            };
            if rc != 0 {
                return format!("ffi:{}/- rust:-", param_error_name(rc));
            }
            unsafe { ffi::rodbus_client_channel_enable(ch) };
            wait_until(Duration::from_secs(3), || fstates.lock().unwrap().seq.len() >= want);
            let f: Vec<String> = fstates.lock().unwrap().seq.iter().take(want).cloned().collect();
            unsafe { ffi::rodbus_client_channel_destroy(ch) };
            let rstates = Arc::new(Mutex::new(Vec::new()));
            let rch = {
                let _g = rt.enter();
                let retry = rodbus::doubling_retry_strategy(Duration::from_millis(20), Duration::from_millis(40));
                if extra == "rtu" {
                    spawn_rtu_client_task(path, SerialSettings::default(), 4, retry, DecodeLevel::nothing(), Some(Box::new(RustPort(rstates.clone()))))
                } else {
                    spawn_tcp_client_task(HostAddr::ip(IpAddr::from([127, 0, 0, 1]), closed.port), 4, retry, DecodeLevel::nothing(), Some(Box::new(RustStates(rstates.clone()))))
                }
            };
            let _ = rt.block_on(rch.enable());
            wait_until(Duration::from_secs(3), || rstates.lock().unwrap().len() >= want);
            let r: Vec<String> = rstates.lock().unwrap().iter().take(want).cloned().collect();
            drop(rch);
            format!("ffi:Ok/{} rust:{}", f.join(">"), r.join(">"))
        }
        "reuse" => {
            let (k, add) = match extra.split_once('+') {
                Some((k, _)) => (k.parse::<usize>().unwrap(), true),
                None => (extra.parse::<usize>().unwrap(), false),
            };
            let bit = |i: u16| i % 2 == 0;
            let reg = |i: u16| i.wrapping_mul(257);
            let unit = unit_of(start, n);
            let peer = start_peer(rt);
            let c = ffi_channel(ffi_rt, peer.port, 4);
            if !ffi_connected(&c) {
                return "FAIL:ffi never connected".into();
            }
            let mut f_out = Vec::new();
            unsafe {
                let bl = ffi::rodbus_bit_list_create(n as u32);
                let rl = ffi::rodbus_register_list_create(n as u32);
                for i in 0..n {
                    ffi::rodbus_bit_list_add(bl, bit(i));
                    ffi::rodbus_register_list_add(rl, reg(i));
                }
                for j in 0..k {
                    let (slot, ctx) = leak_ctx(Slot::default());
                    let param = ffi::RequestParam { unit_id: unit, timeout: 5000 };
                    let wcb = ffi::WriteCallback {
                        on_complete: Some(write_complete),
                        on_failure: Some(on_failure),
                        on_destroy: Some(on_destroy),
                        ctx,
                    };
                    let rc = if op == "wmc" {
                        ffi::rodbus_client_channel_write_multiple_coils(c.ch, param, start, bl, wcb)
                    } else {
                        ffi::rodbus_client_channel_write_multiple_registers(c.ch, param, start, rl, wcb)
                    };
                    let rc = param_error_name(rc);
                    let ev = if rc == "Ok" {
                        slot_events(slot, Duration::from_secs(10))
                    } else {
                        std::thread::sleep(Duration::from_millis(100));
                        slot_events(slot, Duration::from_millis(1))
                    };
                    f_out.push(format!("{rc}/{ev}"));
                    if add {
                        ffi::rodbus_bit_list_add(bl, bit(n + j as u16));
                        ffi::rodbus_register_list_add(rl, reg(n + j as u16));
                    }
                }
                ffi::rodbus_bit_list_destroy(bl);
                ffi::rodbus_register_list_destroy(rl);
                ffi::rodbus_client_channel_destroy(c.ch);
            }
            let peer2 = start_peer(rt);
            let (ch, states) = rust_channel(rt, peer2.port, 4);
            wait_until(Duration::from_secs(10), || states.lock().unwrap().iter().any(|s| s == "Connected"));
            let mut r_out = Vec::new();
            for j in 0..k {
                let m = if add { n + j as u16 } else { n };
                let param = RequestParam::new(UnitId::new(unit), Duration::from_millis(5000));
                let r = rt.block_on(async {
                    if op == "wmc" {
                        match WriteMultiple::from(start, (0..m).map(bit).collect()) {
                            Ok(w) => ch.write_multiple_coils(param, w).await.map(|_| ()).map_err(|e| err_name(&e)),
                            Err(e) => Err(format!("InvalidRequest:{e:?}")),
                        }
                    } else {
                        match WriteMultiple::from(start, (0..m).map(reg).collect()) {
                            Ok(w) => ch.write_multiple_registers(param, w).await.map(|_| ()).map_err(|e| err_name(&e)),
                            Err(e) => Err(format!("InvalidRequest:{e:?}")),
                        }
                    }
                });
                r_out.push(match r {
                    Ok(()) => "OK".to_string(),
                    Err(e) => e,
                });
            }
            let w = |p: &Peer| {
                let a = p.all.lock().unwrap();
                if a.is_empty() {
                    "-".to_string()
                } else {
                    a.iter().map(|b| crate::util::hex(b)).collect::<Vec<_>>().join(",")
                }
            };
            format!("ffi:{} rust:{} wire:{}/{}", f_out.join(";"), r_out.join(";"), w(&peer), w(&peer2))
        }
        "badparam" => {
            let peer = start_peer(rt);
            let c = ffi_channel(ffi_rt, peer.port, 4);
            if !ffi_connected(&c) {
                return "FAIL:ffi never connected".into();
            }
            let (ch_ptr, st, cnt, nullitems) = match extra {
                "null" => (std::ptr::null_mut(), start, n, false),
                "nullitems" => (c.ch, start, n, true),
                _ => (c.ch, start, n, false),
            };
            let (rc, slot) = unsafe { ffi_request(ch_ptr, op, st, cnt, 2000, nullitems) };
            // a rejected call fires nothing: wait a fixed time, not for an event
            std::thread::sleep(Duration::from_millis(150));
            let ev = slot_events(slot, Duration::from_millis(if rc == "Ok" { 5000 } else { 1 }));
            let destroyed = slot.lock().unwrap().destroyed;
            unsafe { ffi::rodbus_client_channel_destroy(c.ch) };
            let r = if extra == "null" || extra == "nullitems" {
                "n/a".to_string()
            } else {
                let peer2 = start_peer(rt);
                let (ch, states) = rust_channel(rt, peer2.port, 4);
                wait_until(Duration::from_secs(10), || states.lock().unwrap().iter().any(|s| s == "Connected"));
                rt.block_on(rust_request(&ch, op, st, cnt, 2000))
            };
            format!("ffi:{rc}/{ev}/destroy={destroyed} rust:{r}")
        }
        "states" => {
            // <extra> = close: connect, the peer closes on a request, reconnect, destroy
            //           refuse: the peer port is closed (failed connects), destroy
            fn first_appearance(v: &[String]) -> String {
                let mut out: Vec<&str> = Vec::new();
                for s in v {
                    if !out.contains(&s.as_str()) {
                        out.push(s);
                    }
                }
                out.join(">")
            }
            if extra == "refuse" {
                let closed = ClosedPort::new();
                let c = ffi_channel(ffi_rt, closed.port, 4);
                wait_until(Duration::from_secs(5), || c.states.lock().unwrap().seq.iter().filter(|s| *s == "WaitAfterFailedConnect").count() >= 2);
                unsafe { ffi::rodbus_client_channel_destroy(c.ch) };
                wait_until(Duration::from_secs(5), || c.states.lock().unwrap().seq.iter().any(|s| s == "Shutdown"));
                let f = first_appearance(&c.states.lock().unwrap().seq);
                let (ch, states) = rust_channel(rt, closed.port, 4);
                wait_until(Duration::from_secs(5), || states.lock().unwrap().iter().filter(|s| *s == "WaitAfterFailedConnect").count() >= 2);
                drop(ch);
                wait_until(Duration::from_secs(5), || states.lock().unwrap().iter().any(|s| s == "Shutdown"));
                let r = first_appearance(&states.lock().unwrap());
                return format!("ffi:Ok/{f} rust:{r}");
            }
            let peer = start_peer(rt);
            let c = ffi_channel(ffi_rt, peer.port, 4);
            let ok = ffi_connected(&c);
            let (_rc, slot) = unsafe { ffi_request(c.ch, "rh", 1003, 1, 2000, false) };
            let _ = slot_events(slot, Duration::from_secs(5));
            wait_until(Duration::from_secs(5), || c.states.lock().unwrap().seq.iter().filter(|s| *s == "Connected").count() >= 2);
            unsafe { ffi::rodbus_client_channel_destroy(c.ch) };
            wait_until(Duration::from_secs(5), || c.states.lock().unwrap().seq.iter().any(|s| s == "Shutdown"));
            let f = c.states.lock().unwrap().seq.join(">");
            let peer2 = start_peer(rt);
            let (ch, states) = rust_channel(rt, peer2.port, 4);
            wait_until(Duration::from_secs(10), || states.lock().unwrap().iter().any(|s| s == "Connected"));
            let _ = rt.block_on(rust_request(&ch, "rh", 1003, 1, 2000));
            wait_until(Duration::from_secs(5), || states.lock().unwrap().iter().filter(|s| *s == "Connected").count() >= 2);
            drop(ch);
            wait_until(Duration::from_secs(5), || states.lock().unwrap().iter().any(|s| s == "Shutdown"));
            let r = states.lock().unwrap().join(">");
            format!("ffi:{}/{f} rust:{r}", if ok { "Ok" } else { "never-connected" })
        }
        _ => "FAIL:scenario".into(),
    }
}

pub fn main(_args: &[String]) -> i32 {
    crate::util::quiet_panics();
    let rt = Arc::new(tokio::runtime::Builder::new_multi_thread().worker_threads(6).enable_all().build().unwrap());
    let ffi_rt = Arc::new(ffi_runtime(4));
    let lines: Arc<Vec<String>> = Arc::new(crate::util::stdin_lines().collect());
    let results: Arc<Mutex<Vec<String>>> = Arc::new(Mutex::new(vec![String::new(); lines.len()]));
    let next = Arc::new(AtomicUsize::new(0));
    let mut workers = Vec::new();
    for _ in 0..16 {
        let (rt, ffi_rt, lines, results, next) = (rt.clone(), ffi_rt.clone(), lines.clone(), results.clone(), next.clone());
        workers.push(std::thread::spawn(move || loop {
            let i = next.fetch_add(1, Ordering::SeqCst);
            if i >= lines.len() {
                break;
            }
            let line = lines[i].clone();
            let (rt2, f2) = (rt.clone(), ffi_rt.clone());
            let r = std::panic::catch_unwind(std::panic::AssertUnwindSafe(move || scenario(&rt2, &f2, &line)));
            results.lock().unwrap()[i] = r.unwrap_or_else(|_| "PANIC".to_string());
        }));
    }
    for w in workers {
        let _ = w.join();
    }
    for r in results.lock().unwrap().iter() {
        println!("{r}");
    }
    0
}
