//! The RTU server task loop (serial/server.rs RtuServerTask::run) on a pty, black box, real time:
//! open -> session -> on error wait after_disconnect (sleep_for, processing commands) -> re-open,
//! with the instrumented handlers of `server`. The port path is a symlink managed by the script.
//!
//! input line: <rmin ms>:<rmax ms>|<units as for `server`>|<steps, comma separated>
//!   link            a fresh pty appears under the port path (replacing the previous one)
//!   unlink          the port path disappears (open attempts fail)
//!   hup             both sides of the current pty are closed (the session's read fails)
//!   tx:<hex>        bytes are written to the master side; the reply (if any arrives within 400 ms) is recorded
//!   txq:<hex>       the same with a window of 120 ms (for requests that must NOT be answered)
//!   rx              whatever arrives within 400 ms is recorded
//!   max / min       ServerHandle::set_decode_level
//!   shutdown / drop ServerHandle::shutdown / the handle is dropped
//!   sleep:<ms>
//! output line: <recorded replies, `-` = nothing, comma separated>|<handler log as for `server`>|<done|live>
//!   done = RtuServerTask::run has returned when the script ends
use std::io::{Read, Write};
use std::os::unix::io::FromRawFd;
use std::sync::{Arc, Mutex};
use std::time::{Duration, Instant};

use rodbus::server::create_rtu_server_task;
use rodbus::{AppDecodeLevel, DecodeLevel, FrameDecodeLevel, PhysDecodeLevel, SerialSettings};

use super::server::{compress, parse_units, Log};
use crate::util::{hex, unhex};

struct Pty {
    master: std::fs::File,
    _slave: std::fs::File,
}

fn open_pty() -> (Pty, String) {
    let mut master: libc::c_int = 0;
    let mut slave: libc::c_int = 0;
    let mut name = [0 as libc::c_char; 128];
    let rc = unsafe { libc::openpty(&mut master, &mut slave, name.as_mut_ptr(), std::ptr::null(), std::ptr::null()) };
    assert_eq!(rc, 0, "openpty");
    let path = unsafe { std::ffi::CStr::from_ptr(name.as_ptr()) }.to_string_lossy().to_string();
    unsafe {
        // raw mode on the slave side so that no byte is translated or echoed
        let mut t: libc::termios = std::mem::zeroed();
        libc::tcgetattr(slave, &mut t);
        libc::cfmakeraw(&mut t);
        libc::tcsetattr(slave, libc::TCSANOW, &t);
        let fl = libc::fcntl(master, libc::F_GETFL);
        libc::fcntl(master, libc::F_SETFL, fl | libc::O_NONBLOCK);
    }
    (Pty { master: unsafe { std::fs::File::from_raw_fd(master) }, _slave: unsafe { std::fs::File::from_raw_fd(slave) } }, path)
}

/// read from the master side until nothing has arrived for 80 ms (at most `total` ms overall)
fn read_reply(pty: &mut Pty, total: u64) -> Vec<u8> {
    let t0 = Instant::now();
    let mut out = Vec::new();
    let mut last = Instant::now();
    let mut buf = [0u8; 512];
    loop {
        match pty.master.read(&mut buf) {
            Ok(n) if n > 0 => {
                out.extend_from_slice(&buf[..n]);
                last = Instant::now();
            }
            _ => std::thread::sleep(Duration::from_millis(5)),
        }
        if (!out.is_empty() && last.elapsed() > Duration::from_millis(80)) || t0.elapsed() > Duration::from_millis(total) {
            return out;
        }
    }
}

fn run_case(line: &str) -> String {
    let f: Vec<&str> = line.trim().split('|').collect();
    assert!(f.len() == 3, "rtu_task: 3 fields");
    let (rmin, rmax) = f[0].split_once(':').expect("rmin:rmax");
    let (rmin, rmax): (u64, u64) = (rmin.parse().unwrap(), rmax.parse().unwrap());
    let log: Log = Arc::new(Mutex::new(Vec::new()));
    let map = parse_units(f[1], &log);
    let dir = std::env::temp_dir().join(format!("p3-rtu-{}-{:?}", std::process::id(), std::thread::current().id()));
    let _ = std::fs::create_dir_all(&dir);
    let port = dir.join("port");
    let _ = std::fs::remove_file(&port);
    let rt = tokio::runtime::Builder::new_multi_thread().worker_threads(2).enable_all().build().unwrap();
    let (handle, task) = {
        let _g = rt.enter();
        create_rtu_server_task(
            port.to_str().unwrap(),
            SerialSettings::default(),
            rodbus::doubling_retry_strategy(Duration::from_millis(rmin), Duration::from_millis(rmax)),
            map,
            DecodeLevel::nothing(),
        )
    };
    let mut handle = Some(handle);
    let mut pty: Option<Pty> = None;
    let mut results: Vec<String> = Vec::new();
    let mut jh = None;
    let mut started = false;
    let mut task = Some(task);
    for step in f[2].split(',') {
        // the task is started at the first step so that `link` / `unlink` before it decide the first open attempt
        let (name, arg) = step.split_once(':').unwrap_or((step, ""));
        if !started && !matches!(name, "link" | "unlink") {
            jh = Some(rt.spawn(task.take().unwrap().run()));
            started = true;
        }
        match name {
            "link" => {
                let (p, slave_path) = open_pty();
                let _ = std::fs::remove_file(&port);
                std::os::unix::fs::symlink(&slave_path, &port).expect("symlink");
                pty = Some(p);
            }
            "unlink" => {
                let _ = std::fs::remove_file(&port);
            }
            "hup" => {
                pty = None;
            }
            "tx" | "txq" => {
                let p = pty.as_mut().expect("tx without a pty");
                p.master.write_all(&unhex(arg)).expect("write to master");
                let r = read_reply(p, if name == "tx" { 400 } else { 120 });
                results.push(if r.is_empty() { "-".to_string() } else { hex(&r) });
            }
            "rx" => {
                let p = pty.as_mut().expect("rx without a pty");
                let r = read_reply(p, 400);
                results.push(if r.is_empty() { "-".to_string() } else { hex(&r) });
            }
            "max" | "min" => {
                let level = if name == "max" {
                    DecodeLevel::new(AppDecodeLevel::DataValues, FrameDecodeLevel::Payload, PhysDecodeLevel::Data)
                } else {
                    DecodeLevel::nothing()
                };
                if let Some(h) = handle.as_mut() {
                    let _ = rt.block_on(async { tokio::time::timeout(Duration::from_millis(200), h.set_decode_level(level)).await });
                }
            }
            "shutdown" => {
                if let Some(h) = handle.as_ref() {
                    let _ = rt.block_on(async { tokio::time::timeout(Duration::from_millis(200), h.shutdown()).await });
                }
            }
            "drop" => {
                handle = None;
            }
            "sleep" => std::thread::sleep(Duration::from_millis(arg.parse().expect("ms"))),
            x => panic!("bad step {x}"),
        }
    }
    std::thread::sleep(Duration::from_millis(100));
    let done = jh.as_ref().map(|j| j.is_finished()).unwrap_or(false);
    drop(pty);
    drop(handle);
    rt.shutdown_timeout(Duration::from_millis(200));
    let _ = std::fs::remove_file(&port);
    let _ = std::fs::remove_dir(&dir);
    let log = compress(&log.lock().unwrap());
    format!(
        "{}|{}|{}",
        if results.is_empty() { "-".to_string() } else { results.join(",") },
        if log.is_empty() { "-".to_string() } else { log.join(";") },
        if done { "done" } else { "live" }
    )
}

pub fn main(_args: &[String]) -> i32 {
    crate::util::quiet_panics();
    let _ = tracing_subscriber::fmt().with_writer(std::io::sink).with_max_level(tracing::Level::TRACE).try_init();
    for line in crate::util::stdin_lines() {
        let l = line.clone();
        match std::panic::catch_unwind(move || run_case(&l)) {
            Ok(s) => println!("{s}"),
            Err(_) => println!("PANIC"),
        }
    }
    0
}
