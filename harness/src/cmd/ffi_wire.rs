//! C18/C19 system level: a C-ABI TCP server with the programmable application of Spec/FfiWireSpec.v
//! (`prog2_point`; as C callbacks: Model/FfiServer.v `prog2_handler`), driven by database operation batches and RAW request frames; the reply bytes are printed.
//! input line: space separated groups
//!   H:null           first group, optional: the application sets NO write callback (all four NULL)
//!   I:<ops>          ops inside the configure callback (db_ops syntax), at most one, first
//!   J:<ops>          (right after I:) rodbus_device_map_add_endpoint AGAIN for the same unit id, configure callback running <ops>;
//!                    rendered as the op results if the callback ran, then dup=<T|F> (the call's return value)
//!   T:<ops>          ops inside one rodbus_server_update_database transaction
//!   W:<ops>|<hex>    one rodbus_server_update_database transaction whose callback FIRST sends the MBAP request
//!                    <hex> (a write) to the case's served unit on the client connection and waits 200 ms for an
//!                    answer, THEN executes <ops> and returns; the answer is collected (after the transaction if it
//!                    had not arrived inside). Rendered as the op results followed by the reply; the line ends with
//!                    ` inside=<n>` = number of W requests that were answered while the transaction was running
//!   X:<S|N>:<hex>    one MBAP request whose PDU is <hex>, addressed to the case's served unit (S, rendered as
//!                    unit 01) or to a unit id the server does not serve (N, rendered as unit 09)
//! output line: ';' separated: op results as in db_ops; per X the reply ADU in hex or `-` for silence (decided
//!   by a sentinel read with transaction id FFFF sent right after: whatever precedes its reply is the answer);
//!   finally cb=<number of write-callback invocations>
//! Write callbacks (all four set): per item address a: a < 100 update the point (success iff present, else
//!   IllegalDataAddress); 100..109 fail with the (a-100)-th standard exception (9 = Unknown, raw 0); 110..365 fail
//!   with Unknown and raw code a-110; >= 366 add-or-update, success. After an item that succeeded the callback also
//!   changes the read-only point types, by a mod 4: 1 add-or-update discrete input a := (v != 0); 2 add-or-update
//!   input register a := v; 3 delete discrete input a and input register a; 0 nothing.
//!   Write-multiple stops at the first failure (earlier items stay).
use super::p5_common::*;
use std::io::{Read, Write};
use std::os::raw::c_void;
use std::sync::atomic::{AtomicUsize, Ordering};
use std::sync::{Arc, Mutex};
use std::time::Duration;

#[derive(Default)]
struct Batch {
    ops: Vec<String>,
    results: Vec<String>,
    /// W groups: a request to send from inside the callback, before the ops
    send_first: Option<(std::net::TcpStream, Vec<u8>)>,
    answered_inside: bool,
}

#[derive(Default)]
struct App {
    callbacks: u32,
}

const STD: [ffi::ModbusException; 10] = [
    ffi::ModbusException::IllegalFunction,
    ffi::ModbusException::IllegalDataAddress,
    ffi::ModbusException::IllegalDataValue,
    ffi::ModbusException::ServerDeviceFailure,
    ffi::ModbusException::Acknowledge,
    ffi::ModbusException::ServerDeviceBusy,
    ffi::ModbusException::MemoryParityError,
    ffi::ModbusException::GatewayPathUnavailable,
    ffi::ModbusException::GatewayTargetDeviceFailedToRespond,
    ffi::ModbusException::Unknown,
];

fn ok() -> ffi::WriteResult {
    write_result(true, ffi::ModbusException::Unknown, 0)
}

unsafe fn mirror(db: *mut rodbus_ffi::Database, i: u16, v: u16) {
    match i % 4 {
        1 => {
            ffi::rodbus_database_add_discrete_input(db, i, v != 0);
            ffi::rodbus_database_update_discrete_input(db, i, v != 0);
        }
        2 => {
            ffi::rodbus_database_add_input_register(db, i, v);
            ffi::rodbus_database_update_input_register(db, i, v);
        }
        3 => {
            ffi::rodbus_database_delete_discrete_input(db, i);
            ffi::rodbus_database_delete_input_register(db, i);
        }
        _ => {}
    }
}

unsafe fn prog_point(db: *mut rodbus_ffi::Database, coil: bool, i: u16, v: u16) -> ffi::WriteResult {
    if i < 100 {
        let present = if coil {
            ffi::rodbus_database_update_coil(db, i, v != 0)
        } else {
            ffi::rodbus_database_update_holding_register(db, i, v)
        };
        if present {
            mirror(db, i, v);
            ok()
        } else {
            write_result(false, ffi::ModbusException::IllegalDataAddress, 0)
        }
    } else if i < 110 {
        write_result(false, STD[(i - 100) as usize], 0)
    } else if i < 366 {
        write_result(false, ffi::ModbusException::Unknown, (i - 110) as u8)
    } else {
        if coil {
            ffi::rodbus_database_add_coil(db, i, v != 0);
            ffi::rodbus_database_update_coil(db, i, v != 0);
        } else {
            ffi::rodbus_database_add_holding_register(db, i, v);
            ffi::rodbus_database_update_holding_register(db, i, v);
        }
        mirror(db, i, v);
        ok()
    }
}

fn count(ctx: *mut c_void) {
    unsafe { ctx_ref::<App>(ctx) }.lock().unwrap().callbacks += 1;
}

extern "C" fn w_coil(i: u16, v: bool, db: *mut rodbus_ffi::Database, ctx: *mut c_void) -> ffi::WriteResult {
    count(ctx);
    unsafe { prog_point(db, true, i, v as u16) }
}
extern "C" fn w_reg(i: u16, v: u16, db: *mut rodbus_ffi::Database, ctx: *mut c_void) -> ffi::WriteResult {
    count(ctx);
    unsafe { prog_point(db, false, i, v) }
}
extern "C" fn w_coils(_s: u16, it: *mut rodbus_ffi::BitValueIterator, db: *mut rodbus_ffi::Database, ctx: *mut c_void) -> ffi::WriteResult {
    count(ctx);
    unsafe {
        loop {
            let p = ffi::rodbus_bit_value_iterator_next(it);
            if p.is_null() {
                return ok();
            }
            let r = prog_point(db, true, (*p).index, (*p).value as u16);
            if !r.success {
                return r;
            }
        }
    }
}
extern "C" fn w_regs(_s: u16, it: *mut rodbus_ffi::RegisterValueIterator, db: *mut rodbus_ffi::Database, ctx: *mut c_void) -> ffi::WriteResult {
    count(ctx);
    unsafe {
        loop {
            let p = ffi::rodbus_register_value_iterator_next(it);
            if p.is_null() {
                return ok();
            }
            let r = prog_point(db, false, (*p).index, (*p).value);
            if !r.success {
                return r;
            }
        }
    }
}

unsafe fn exec_op(db: *mut rodbus_ffi::Database, op: &str) -> String {
    let kind = op.as_bytes()[0] as char;
    let t = op.as_bytes()[1] as char;
    let rest = &op[2..];
    let (idx, val) = match rest.split_once('=') {
        Some((i, v)) => (i.parse::<u16>().unwrap(), v.parse::<u16>().unwrap()),
        None => (rest.parse::<u16>().unwrap(), 0),
    };
    let b = |x: bool| if x { "T".to_string() } else { "F".to_string() };
    match (kind, t) {
        ('a', 'c') => b(ffi::rodbus_database_add_coil(db, idx, val != 0)),
        ('a', 'd') => b(ffi::rodbus_database_add_discrete_input(db, idx, val != 0)),
        ('a', 'h') => b(ffi::rodbus_database_add_holding_register(db, idx, val)),
        ('a', 'i') => b(ffi::rodbus_database_add_input_register(db, idx, val)),
        ('u', 'c') => b(ffi::rodbus_database_update_coil(db, idx, val != 0)),
        ('u', 'd') => b(ffi::rodbus_database_update_discrete_input(db, idx, val != 0)),
        ('u', 'h') => b(ffi::rodbus_database_update_holding_register(db, idx, val)),
        ('u', 'i') => b(ffi::rodbus_database_update_input_register(db, idx, val)),
        ('d', 'c') => b(ffi::rodbus_database_delete_coil(db, idx)),
        ('d', 'd') => b(ffi::rodbus_database_delete_discrete_input(db, idx)),
        ('d', 'h') => b(ffi::rodbus_database_delete_holding_register(db, idx)),
        ('d', 'i') => b(ffi::rodbus_database_delete_input_register(db, idx)),
        ('g', 'c') | ('g', 'd') => {
            let mut out = false;
            let rc = if t == 'c' { ffi::rodbus_database_get_coil(db, idx, &mut out) } else { ffi::rodbus_database_get_discrete_input(db, idx, &mut out) };
            if rc == 0 {
                format!("b{}", out as u8)
            } else {
                "-".into()
            }
        }
        ('g', 'h') | ('g', 'i') => {
            let mut out = 0u16;
            let rc = if t == 'h' { ffi::rodbus_database_get_holding_register(db, idx, &mut out) } else { ffi::rodbus_database_get_input_register(db, idx, &mut out) };
            if rc == 0 {
                format!("r{out}")
            } else {
                "-".into()
            }
        }
        _ => panic!("bad op {op}"),
    }
}

extern "C" fn run_batch(db: *mut rodbus_ffi::Database, ctx: *mut c_void) {
    let mut b = unsafe { ctx_ref::<Batch>(ctx) }.lock().unwrap();
    if let Some((mut stream, req)) = b.send_first.take() {
        let _ = stream.write_all(&req);
        let _ = stream.set_read_timeout(Some(Duration::from_millis(200)));
        let mut one = [0u8; 1];
        b.answered_inside = matches!(stream.peek(&mut one), Ok(n) if n > 0);
        let _ = stream.set_read_timeout(Some(Duration::from_secs(10)));
    }
    let ops = b.ops.clone();
    for op in ops {
        let r = unsafe { exec_op(db, &op) };
        b.results.push(r);
    }
}

fn batch_callback(ops: &str) -> (&'static Mutex<Batch>, ffi::DatabaseCallback) {
    let (state, ctx) = leak_ctx(Batch {
        ops: ops.split(';').filter(|s| !s.is_empty()).map(|s| s.to_string()).collect(),
        results: Vec::new(),
        send_first: None,
        answered_inside: false,
    });
    (
        state,
        ffi::DatabaseCallback {
            callback: Some(run_batch),
            on_destroy: Some(noop_destroy),
            ctx,
        },
    )
}

const UNSERVED: u8 = 250;

fn read_adu(s: &mut std::net::TcpStream) -> Option<Vec<u8>> {
    let mut h = [0u8; 7];
    s.read_exact(&mut h).ok()?;
    let len = u16::from_be_bytes([h[4], h[5]]) as usize;
    if len == 0 || len > 300 {
        return None;
    }
    let mut rest = vec![0u8; len - 1];
    s.read_exact(&mut rest).ok()?;
    let mut v = h.to_vec();
    v.extend(rest);
    Some(v)
}

/// send one request and the sentinel; returns the replies that precede the sentinel's reply
fn exchange(s: &mut std::net::TcpStream, tx: u16, unit: u8, shown_unit: u8, pdu: &[u8], sentinel_unit: u8) -> String {
    let mut req = Vec::new();
    req.extend(tx.to_be_bytes());
    req.extend([0, 0]);
    req.extend(((pdu.len() + 1) as u16).to_be_bytes());
    req.push(unit);
    req.extend(pdu);
    // sentinel: read holding register 0 of the served unit, transaction id FFFF
    req.extend([0xFF, 0xFF, 0, 0, 0, 6, sentinel_unit, 3, 0, 0, 0, 1]);
    if s.write_all(&req).is_err() {
        return "ERR:write".into();
    }
    collect(s, unit, shown_unit)
}

/// the request is on its way already: send only the sentinel, return the replies that precede the sentinel's reply
fn exchange_sent(s: &mut std::net::TcpStream, unit: u8, shown_unit: u8, sentinel_unit: u8) -> String {
    if s.write_all(&[0xFF, 0xFF, 0, 0, 0, 6, sentinel_unit, 3, 0, 0, 0, 1]).is_err() {
        return "ERR:write".into();
    }
    collect(s, unit, shown_unit)
}

fn collect(s: &mut std::net::TcpStream, unit: u8, shown_unit: u8) -> String {
    let mut answers = Vec::new();
    loop {
        match read_adu(s) {
            None => return "ERR:closed".into(),
            Some(adu) => {
                if adu[0] == 0xFF && adu[1] == 0xFF {
                    break;
                }
                let mut a = adu.clone();
                a[6] = shown_unit;
                if adu[6] != unit {
                    return format!("ERR:unit{:02X}", adu[6]);
                }
                answers.push(crate::util::hex(&a));
            }
        }
    }
    if answers.is_empty() {
        "-".into()
    } else {
        answers.join("+")
    }
}

fn batch(ffi_rt: &FfiRuntime, lines: &[String]) -> Vec<String> {
    assert!(lines.len() <= 200);
    for _attempt in 0..8 {
        let mut outs: Vec<Vec<String>> = vec![Vec::new(); lines.len()];
        let mut apps: Vec<&'static Mutex<App>> = Vec::new();
        unsafe {
            let map = ffi::rodbus_device_map_create();
            for (k, line) in lines.iter().enumerate() {
                let init_ops = match line.split_whitespace().find(|g| g.starts_with("I:")) {
                    Some(g) => g[2..].to_string(),
                    None => String::new(),
                };
                let null = line.split_whitespace().any(|g| g == "H:null");
                let (state, cb) = batch_callback(&init_ops);
                let (app, actx) = leak_ctx(App::default());
                apps.push(app);
                let handler = ffi::WriteHandler {
                    write_single_coil: if null { None } else { Some(w_coil) },
                    write_single_register: if null { None } else { Some(w_reg) },
                    write_multiple_coils: if null { None } else { Some(w_coils) },
                    write_multiple_registers: if null { None } else { Some(w_regs) },
                    on_destroy: Some(noop_destroy),
                    ctx: actx,
                };
                let ok = ffi::rodbus_device_map_add_endpoint(map, (k + 1) as u8, handler, cb);
                assert!(ok);
                let r = state.lock().unwrap().results.clone();
                if !r.is_empty() {
                    outs[k].push(r.join(";"));
                }
                for g in line.split_whitespace().filter(|g| g.starts_with("J:")) {
                    let (state2, cb2) = batch_callback(&g[2..]);
                    let (_app2, actx2) = leak_ctx(App::default());
                    let handler2 = ffi::WriteHandler {
                        write_single_coil: if null { None } else { Some(w_coil) },
                        write_single_register: if null { None } else { Some(w_reg) },
                        write_multiple_coils: if null { None } else { Some(w_coils) },
                        write_multiple_registers: if null { None } else { Some(w_regs) },
                        on_destroy: Some(noop_destroy),
                        ctx: actx2,
                    };
                    let accepted = ffi::rodbus_device_map_add_endpoint(map, (k + 1) as u8, handler2, cb2);
                    let r2 = state2.lock().unwrap().results.clone();
                    if !r2.is_empty() {
                        outs[k].push(r2.join(";"));
                    }
                    outs[k].push(format!("dup={}", if accepted { "T" } else { "F" }));
                }
            }
            let filter = ffi::rodbus_address_filter_any();
            let port = free_port("127.0.0.1");
            let ip = cstr("127.0.0.1");
            let mut server: *mut rodbus_ffi::Server = std::ptr::null_mut();
            let rc = ffi::rodbus_server_create_tcp(ffi_rt.0, ip.as_ptr(), port, filter, 4, map, decode_nothing(), &mut server);
            ffi::rodbus_device_map_destroy(map);
            ffi::rodbus_address_filter_destroy(filter);
            if rc != 0 {
                continue;
            }
            let mut stream = match std::net::TcpStream::connect(("127.0.0.1", port)) {
                Ok(s) => s,
                Err(_) => {
                    ffi::rodbus_server_destroy(server);
                    continue;
                }
            };
            let _ = stream.set_nodelay(true);
            let _ = stream.set_read_timeout(Some(Duration::from_secs(10)));
            for (k, line) in lines.iter().enumerate() {
                let unit = (k + 1) as u8;
                let mut tx: u16 = 1;
                let mut inside = 0;
                let mut any_w = false;
                for g in line.split_whitespace() {
                    if g.starts_with("I:") || g.starts_with("H:") || g.starts_with("J:") {
                        continue;
                    }
                    if let Some(ops) = g.strip_prefix("T:") {
                        let (state, cb) = batch_callback(ops);
                        let rc = ffi::rodbus_server_update_database(server, unit, cb);
                        if rc != 0 {
                            outs[k].push(format!("ERR:update_database:{}", param_error_name(rc)));
                        }
                        let r = state.lock().unwrap().results.clone();
                        if !r.is_empty() {
                            outs[k].push(r.join(";"));
                        }
                    } else if let Some(w) = g.strip_prefix("W:") {
                        any_w = true;
                        let (ops, hexpdu) = w.split_once('|').unwrap();
                        let pdu = crate::util::unhex(hexpdu);
                        let mut req = Vec::new();
                        req.extend(tx.to_be_bytes());
                        req.extend([0, 0]);
                        req.extend(((pdu.len() + 1) as u16).to_be_bytes());
                        req.push(unit);
                        req.extend(&pdu);
                        let (state, cb) = batch_callback(ops);
                        state.lock().unwrap().send_first = Some((stream.try_clone().unwrap(), req));
                        let rc = ffi::rodbus_server_update_database(server, unit, cb);
                        if rc != 0 {
                            outs[k].push(format!("ERR:update_database:{}", param_error_name(rc)));
                        }
                        let (r, ins) = {
                            let st = state.lock().unwrap();
                            (st.results.clone(), st.answered_inside)
                        };
                        if ins {
                            inside += 1;
                        }
                        if !r.is_empty() {
                            outs[k].push(r.join(";"));
                        }
                        // the answer to the request sent from inside the callback, then the sentinel
                        let _ = stream.set_read_timeout(Some(Duration::from_secs(10)));
                        outs[k].push(exchange_sent(&mut stream, unit, 1, unit));
                        tx += 1;
                    } else if let Some(x) = g.strip_prefix("X:") {
                        let (which, hexpdu) = x.split_once(':').unwrap();
                        let pdu = crate::util::unhex(hexpdu);
                        let (u, shown) = if which == "S" { (unit, 1) } else { (UNSERVED, 9) };
                        outs[k].push(exchange(&mut stream, tx, u, shown, &pdu, unit));
                        tx += 1;
                    } else {
                        outs[k].push(format!("ERR:group {g}"));
                    }
                }
                outs[k].push(format!("cb={}{}", apps[k].lock().unwrap().callbacks, if any_w { format!(" inside={inside}") } else { String::new() }));
            }
            drop(stream);
            ffi::rodbus_server_destroy(server);
            return outs.into_iter().map(|o| o.join(";")).collect();
        }
    }
    vec!["FAIL:bind".to_string(); lines.len()]
}

pub fn main(_args: &[String]) -> i32 {
    crate::util::quiet_panics();
    let ffi_rt = Arc::new(ffi_runtime(4));
    let lines: Vec<String> = crate::util::stdin_lines().collect();
    let batches: Arc<Vec<Vec<String>>> = Arc::new(lines.chunks(100).map(|c| c.to_vec()).collect());
    let results: Arc<Mutex<Vec<Vec<String>>>> = Arc::new(Mutex::new(vec![Vec::new(); batches.len()]));
    let next = Arc::new(AtomicUsize::new(0));
    let mut workers = Vec::new();
    for _ in 0..12 {
        let (ffi_rt, batches, results, next) = (ffi_rt.clone(), batches.clone(), results.clone(), next.clone());
        workers.push(std::thread::spawn(move || loop {
            let i = next.fetch_add(1, Ordering::SeqCst);
            if i >= batches.len() {
                break;
            }
            let b = batches[i].clone();
            let n = b.len();
            let f2 = ffi_rt.clone();
            let r = std::panic::catch_unwind(std::panic::AssertUnwindSafe(move || batch(&f2, &b)));
            results.lock().unwrap()[i] = r.unwrap_or_else(|_| vec!["PANIC".to_string(); n]);
        }));
    }
    for w in workers {
        let _ = w.join();
    }
    for b in results.lock().unwrap().iter() {
        for r in b {
            println!("{r}");
        }
    }
    0
}
