//! C06 (emit under a congested transmit path): the production server SessionTask (write_reply) or the
//! production client (execute_request) writing ONE frame into a transport that takes it in pieces and is
//! full for a while, with commands arriving while the write is parked.
//!
//! input line:  <server-tcp|server-rtu|client-tcp|client-rtu> <script> <ncmds> [<request hex>]
//!   script  = comma separated write steps: aN = take at most N bytes of the write offered, b = take
//!             nothing until released, B = take nothing EVER AGAIN (the harness then lets 3 s of virtual time pass:
//!             the client's request timeout of 1 s elapses), `-` = no script (everything is taken at once)
//!   ncmds   = how many decode-level changes are sent each time the write is parked at a `b` step
//!             (server: ServerCommand::ChangeDecoding through the session's command channel;
//!              client: Channel::set_decode_level), before the step is released
//!   server: the request frame (hex) is delivered first; client: one read-holding-registers(unit 1, 0, 3)
//! output line: every byte the transport accepted, in order (hex), `-` if none; then ` parked=<times the write was parked>`;
//!              client roles also ` result=<what the first request ended as|pending>` ` session=<how the session ended|running>`
//!              (a second request is queued behind the first: nothing of it may appear if the session ended)
//! optional argument: --decode min|max
use crate::util::{hex, unhex};
use crate::wire::{Wire, WriteStep};
use rodbus::client::RequestParam;
use rodbus::server::{RequestHandler, ServerHandlerMap};
use rodbus::verif::{run_server_session, ClientSession, Framing, ServerCommand};
use rodbus::{AddressRange, AppDecodeLevel, DecodeLevel, ExceptionCode, FrameDecodeLevel, PhysDecodeLevel, UnitId};
use std::time::Duration;

struct H;
impl RequestHandler for H {
    fn read_holding_register(&self, a: u16) -> Result<u16, ExceptionCode> {
        Ok(a.wrapping_mul(31).wrapping_add(7))
    }
    fn read_coil(&self, a: u16) -> Result<bool, ExceptionCode> {
        Ok(a % 3 == 0)
    }
}

fn parse_script(s: &str) -> Vec<WriteStep> {
    if s == "-" {
        return vec![];
    }
    s.split(',')
        .map(|t| match t {
            "b" | "B" => WriteStep::Block,
            t if t.starts_with('a') => WriteStep::Accept(t[1..].parse().unwrap()),
            t => panic!("bad write step {t:?}"),
        })
        .collect()
}

fn level(i: usize) -> DecodeLevel {
    if i % 2 == 0 {
        DecodeLevel::new(AppDecodeLevel::DataValues, FrameDecodeLevel::Payload, PhysDecodeLevel::Data)
    } else {
        DecodeLevel::nothing()
    }
}

async fn run_case(line: String, decode: DecodeLevel) -> String {
    let p: Vec<&str> = line.split_whitespace().collect();
    let (role, script, ncmds) = (p[0], parse_script(p[1]), p[2].parse::<usize>().unwrap());
    // the index of the write step that is never released, if any
    let forever = p[1].split(',').filter(|t| *t == "b" || *t == "B").position(|t| t == "B");
    let wire = Wire::new();
    wire.script_writes(&script);
    let mut parked = 0;
    let w = wire.clone();
    if role.starts_with("server") {
        let framing = if role == "server-tcp" { Framing::Tcp } else { Framing::RtuRequest };
        let mut map = ServerHandlerMap::new();
        map.add(UnitId::new(1), H.wrap());
        let (tx, rx) = tokio::sync::mpsc::channel(64);
        wire.push(&unhex(p[3]));
        let driver = async {
            for _ in 0..40 {
                crate::wire::settle().await;
                if w.write_is_blocked() {
                    parked += 1;
                    for i in 0..ncmds {
                        let _ = tx.send(ServerCommand::ChangeDecoding(level(i))).await;
                    }
                    crate::wire::settle().await;
                    w.release_write();
                }
            }
        };
        tokio::select! {
            _ = run_server_session(Box::new(wire.clone()), map, None, framing, decode, rx) => {}
            _ = driver => {}
        }
    } else {
        let framing = if role == "client-tcp" { Framing::Tcp } else { Framing::RtuResponse };
        let (channel, mut session) = ClientSession::new(framing, 64, decode, None);
        channel.enable().await.unwrap();
        let result: std::sync::Arc<std::sync::Mutex<Option<String>>> = Default::default();
        for k in 0..2 {
            let ch = channel.clone();
            let res = result.clone();
            tokio::spawn(async move {
                let r = ch
                    .read_holding_registers(RequestParam::new(UnitId::new(1), Duration::from_secs(1)), AddressRange::try_from(0, 3).unwrap())
                    .await;
                if k == 0 {
                    *res.lock().unwrap() = Some(match r {
                        Ok(_) => "Ok".to_string(),
                        Err(rodbus::RequestError::Io(kind)) => format!("Io({kind:?})"),
                        Err(e) => format!("{e:?}"),
                    });
                }
            });
            crate::wire::settle().await;
        }
        let driver = async {
            let mut blocks = 0;
            for _ in 0..40 {
                crate::wire::settle().await;
                if w.write_is_blocked() {
                    parked += 1;
                    for i in 0..ncmds {
                        let _ = channel.set_decode_level(level(i)).await;
                    }
                    crate::wire::settle().await;
                    if forever == Some(blocks) {
                        // the transmit path never recovers: let the request's timeout elapse
                        tokio::time::sleep(Duration::from_secs(3)).await;
                        break;
                    }
                    blocks += 1;
                    w.release_write();
                }
            }
        };
        let session_end = tokio::select! {
            e = session.run(Box::new(wire.clone())) => e,
            _ = driver => "running".to_string(),
        };
        crate::wire::settle().await;
        let out = wire.out_flat();
        let res = result.lock().unwrap().clone().unwrap_or("pending".to_string());
        return format!("{} parked={} result={} session={}", if out.is_empty() { "-".to_string() } else { hex(&out) }, parked, res, session_end);
    }
    let out = wire.out_flat();
    format!("{} parked={}", if out.is_empty() { "-".to_string() } else { hex(&out) }, parked)
}

pub fn main(args: &[String]) -> i32 {
    crate::util::quiet_panics();
    let decode = crate::util::decode_arg(args);
    for line in crate::util::stdin_lines() {
        let res = std::panic::catch_unwind(move || {
            let rt = tokio::runtime::Builder::new_current_thread().enable_time().start_paused(true).build().unwrap();
            rt.block_on(run_case(line, decode))
        });
        match res {
            Ok(s) => println!("{s}"),
            Err(e) => println!("{}", crate::util::panic_name(&e)),
        }
    }
    0
}
