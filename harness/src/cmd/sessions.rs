//! C15: the REAL `spawn_tcp_server_task` on loopback against k raw TCP clients.
//!
//! input line:  <max_sessions> <op> <op> ...     ops: C | X<k> | G<k> | R<k>:<v> | D | S | H
//!   C      connect a new client (connection numbers = order of successful connects, from 0)
//!   X<k>   client k closes its socket
//!   G<k>   client k sends garbage (bad MBAP protocol id)
//!   R<k>:<v>  client k writes <v> to holding register 0 (write single register)
//!   D      ServerHandle::set_decode_level
//!   S      ServerHandle::shutdown
//!   H      drop the ServerHandle
//! after every op (and a settle pause) every connection the client side still holds is probed with
//! a sentinel read of register 0; a connection is open iff the probe is answered.
//! output line: one field per op, joined by '|':   <open connection numbers ','-separated>/<up>/<value>
//!   up = 1 until S/H was executed; afterwards the listening port is probed: 0 = refuses connections
//!   value = what the request handler holds (read directly from the handler object)
//!   a probe answered with anything but the handler's value prints BADREPLY, a probe that is neither
//!   answered nor closed within 2 s prints HUNG.
//! args: [settle_ms]   (default 40)
use std::sync::{Arc, Mutex};
use std::time::Duration;

use rodbus::server::*;
use rodbus::*;
use tokio::io::{AsyncReadExt, AsyncWriteExt};
use tokio::net::TcpStream;

struct Handler {
    value: Arc<Mutex<u16>>,
}

impl RequestHandler for Handler {
    fn read_holding_register(&self, address: u16) -> Result<u16, ExceptionCode> {
        if address == 0 {
            Ok(*self.value.lock().unwrap())
        } else {
            Err(ExceptionCode::IllegalDataAddress)
        }
    }
    fn write_single_register(&mut self, value: Indexed<u16>) -> Result<(), ExceptionCode> {
        if value.index == 0 {
            *self.value.lock().unwrap() = value.value;
            Ok(())
        } else {
            Err(ExceptionCode::IllegalDataAddress)
        }
    }
}

#[derive(PartialEq, Clone, Copy, Debug)]
enum Probe {
    Open,
    Closed,
    Hung,
    BadReply,
}

struct Conn {
    sock: Option<TcpStream>, // None: closed by the client itself or seen closed
    tx: u16,
}

async fn exchange(sock: &mut TcpStream, req: &[u8], reply_len: usize) -> Result<Vec<u8>, Probe> {
    if sock.write_all(req).await.is_err() {
        return Err(Probe::Closed);
    }
    let mut buf = vec![0u8; reply_len];
    match tokio::time::timeout(Duration::from_secs(2), sock.read_exact(&mut buf)).await {
        Err(_) => Err(Probe::Hung),
        Ok(Err(_)) => Err(Probe::Closed),
        Ok(Ok(_)) => Ok(buf),
    }
}

async fn probe(c: &mut Conn, expected: u16) -> Probe {
    let Some(sock) = c.sock.as_mut() else { return Probe::Closed };
    c.tx = c.tx.wrapping_add(1);
    let t = c.tx.to_be_bytes();
    let req = [t[0], t[1], 0, 0, 0, 6, 1, 3, 0, 0, 0, 1];
    match exchange(sock, &req, 11).await {
        Err(Probe::Closed) => {
            c.sock = None;
            Probe::Closed
        }
        Err(p) => p,
        Ok(r) => {
            let v = expected.to_be_bytes();
            if r == [t[0], t[1], 0, 0, 0, 5, 1, 3, 2, v[0], v[1]] {
                Probe::Open
            } else {
                Probe::BadReply
            }
        }
    }
}

async fn free_port(ip: std::net::Ipv4Addr) -> u16 {
    let l = std::net::TcpListener::bind((ip, 0)).expect("bind port 0");
    l.local_addr().unwrap().port()
}

async fn scenario(line: &str, settle: Duration, ip: std::net::Ipv4Addr) -> String {
    let mut parts = line.split_whitespace();
    let max: usize = parts.next().unwrap().parse().unwrap();
    let value = Arc::new(Mutex::new(0u16));
    let mut handle = None;
    let mut addr = std::net::SocketAddr::from((ip, 0));
    for _ in 0..20 {
        addr = std::net::SocketAddr::from((ip, free_port(ip).await));
        let map = ServerHandlerMap::single(UnitId::new(1), Handler { value: value.clone() }.wrap());
        match spawn_tcp_server_task(max, addr, map, AddressFilter::Any, DecodeLevel::nothing()).await {
            Ok(h) => {
                handle = Some(h);
                break;
            }
            Err(_) => continue,
        }
    }
    if handle.is_none() {
        return "NOSERVER".to_string();
    }
    let mut stopped = false;
    let mut conns: Vec<Conn> = Vec::new();
    let mut out: Vec<String> = Vec::new();
    let mut level = false;
    for op in parts {
        let (code, rest) = op.split_at(1);
        match code {
            "C" => match tokio::time::timeout(Duration::from_secs(2), TcpStream::connect(addr)).await {
                Ok(Ok(s)) => {
                    let _ = s.set_nodelay(true);
                    conns.push(Conn { sock: Some(s), tx: 0 })
                }
                _ => {}
            },
            "X" => {
                let k: usize = rest.parse().unwrap();
                if let Some(c) = conns.get_mut(k) {
                    c.sock = None;
                }
            }
            "G" => {
                let k: usize = rest.parse().unwrap();
                if let Some(Some(s)) = conns.get_mut(k).map(|c| c.sock.as_mut()) {
                    let _ = s.write_all(&[0xFF; 8]).await;
                }
            }
            "R" => {
                let (k, v) = rest.split_once(':').unwrap();
                let k: usize = k.parse().unwrap();
                let v: u16 = v.parse().unwrap();
                if let Some(c) = conns.get_mut(k) {
                    if let Some(s) = c.sock.as_mut() {
                        c.tx = c.tx.wrapping_add(1);
                        let t = c.tx.to_be_bytes();
                        let b = v.to_be_bytes();
                        let req = [t[0], t[1], 0, 0, 0, 6, 1, 6, 0, 0, b[0], b[1]];
                        // the echo (or the close) is awaited so that the write has been applied
                        if let Err(Probe::Closed) = exchange(s, &req, 12).await {
                            c.sock = None;
                        }
                    }
                }
            }
            "D" => {
                if let Some(h) = handle.as_mut() {
                    level = !level;
                    let l = if level {
                        DecodeLevel::new(AppDecodeLevel::DataValues, FrameDecodeLevel::Payload, PhysDecodeLevel::Data)
                    } else {
                        DecodeLevel::nothing()
                    };
                    let _ = h.set_decode_level(l).await;
                }
            }
            "S" => {
                if let Some(h) = handle.as_ref() {
                    let _ = h.shutdown().await;
                    stopped = true;
                }
            }
            "H" => {
                if handle.take().is_some() {
                    stopped = true;
                }
            }
            _ => return format!("BADOP:{op}"),
        }
        tokio::time::sleep(settle).await;
        let expected = *value.lock().unwrap();
        let mut open = Vec::new();
        let mut flag = "";
        for (i, c) in conns.iter_mut().enumerate() {
            match probe(c, expected).await {
                Probe::Open => open.push(i.to_string()),
                Probe::Closed => {}
                Probe::Hung => flag = "HUNG",
                Probe::BadReply => flag = "BADREPLY",
            }
        }
        let up = if !stopped {
            1
        } else {
            // the port must refuse connections once the task has returned
            let mut up = 1;
            for _ in 0..100 {
                match tokio::time::timeout(Duration::from_secs(1), TcpStream::connect(addr)).await {
                    Ok(Ok(_)) => tokio::time::sleep(Duration::from_millis(20)).await,
                    _ => {
                        up = 0;
                        break;
                    }
                }
            }
            up
        };
        out.push(format!("{}/{}/{}{}", open.join(","), up, expected, flag));
    }
    drop(conns);
    drop(handle);
    out.join("|")
}

pub fn main(args: &[String]) -> i32 {
    crate::util::quiet_panics();
    let settle = Duration::from_millis(args.first().and_then(|s| s.parse().ok()).unwrap_or(40));
    let rt = tokio::runtime::Builder::new_multi_thread().worker_threads(3).enable_all().build().unwrap();
    let pid = std::process::id();
    for (n, line) in crate::util::stdin_lines().enumerate() {
        // a loopback address of its own per scenario keeps concurrently running shards apart
        let ip = std::net::Ipv4Addr::new(127, 1 + (pid % 200) as u8, (n / 250 % 250) as u8, (n % 250 + 1) as u8);
        let l = line.clone();
        let res = rt.block_on(async move {
            match tokio::spawn(async move { scenario(&l, settle, ip).await }).await {
                Ok(s) => s,
                Err(_) => "PANIC".to_string(),
            }
        });
        println!("{res}");
    }
    0
}
