//! C19 atomicity stress: one C-ABI server; a writer thread sets N holding registers (and N coils) to ONE
//! common value per rodbus_server_update_database transaction while client tasks read all N points with a
//! single request each; a reply that mixes two values has observed part of a transaction.
//! input line:  <n_points> <n_clients> <duration_ms>
//! A further client writes through write_single_register; the C write callback then sets all N points to the
//! written (even) value inside the handler's critical section; transactions use odd values.
//! output line: reads=<r> mixed=<m> backwards=<b> txns=<t> distinct=<d> errors=<e> client_writes=<w> [first_mixed=<...>]
//!   backwards = a client saw an older value after a newer one (replies of one connection are ordered)
use super::p5_common::*;
use rodbus::client::*;
use rodbus::*;
use std::net::IpAddr;
use std::os::raw::c_void;
use std::sync::atomic::{AtomicBool, AtomicU64, Ordering};
use std::sync::{Arc, Mutex};
use std::time::{Duration, Instant};

struct Tx {
    n: u16,
    value: u16,
}

extern "C" fn init_points(db: *mut rodbus_ffi::Database, ctx: *mut c_void) {
    let t = unsafe { ctx_ref::<Tx>(ctx) }.lock().unwrap();
    for i in 0..t.n {
        unsafe {
            ffi::rodbus_database_add_holding_register(db, i, 0);
            ffi::rodbus_database_add_coil(db, i, false);
        }
    }
}

extern "C" fn set_all(db: *mut rodbus_ffi::Database, ctx: *mut c_void) {
    let t = unsafe { ctx_ref::<Tx>(ctx) }.lock().unwrap();
    for i in 0..t.n {
        unsafe {
            ffi::rodbus_database_update_holding_register(db, i, t.value);
            ffi::rodbus_database_update_coil(db, i, t.value % 2 == 1);
        }
        if i % 16 == 7 {
            // widen the window in which a reader could slip in if the lock were not held
            std::thread::yield_now();
        }
    }
}

/// write_single_register(index = n, value = v): the application callback sets every point to v, one by one
extern "C" fn wh_set_all(index: u16, value: u16, db: *mut rodbus_ffi::Database, _ctx: *mut c_void) -> ffi::WriteResult {
    for i in 0..index {
        unsafe {
            ffi::rodbus_database_update_holding_register(db, i, value);
            ffi::rodbus_database_update_coil(db, i, value % 2 == 1);
        }
        if i % 16 == 7 {
            std::thread::yield_now();
        }
    }
    write_result(true, ffi::ModbusException::Unknown, 0)
}

fn stress_write_handler() -> ffi::WriteHandler {
    let mut h = accepting_write_handler();
    h.write_single_register = Some(wh_set_all);
    h
}

#[derive(Default)]
struct Tally {
    reads: u64,
    mixed: u64,
    backwards: u64,
    errors: u64,
    distinct: std::collections::BTreeSet<u16>,
    first_mixed: Option<String>,
}

pub fn main(_args: &[String]) -> i32 {
    crate::util::quiet_panics();
    let rt = tokio::runtime::Builder::new_multi_thread().worker_threads(6).enable_all().build().unwrap();
    let ffi_rt = ffi_runtime(4);
    for line in crate::util::stdin_lines() {
        let p: Vec<&str> = line.split_whitespace().collect();
        let n: u16 = p[0].parse().unwrap();
        let clients: usize = p[1].parse().unwrap();
        let dur = Duration::from_millis(p[2].parse().unwrap());
        let mut started = None;
        for _ in 0..8 {
            unsafe {
                let map = ffi::rodbus_device_map_create();
                let (_, ctx) = leak_ctx(Tx { n, value: 0 });
                ffi::rodbus_device_map_add_endpoint(
                    map,
                    1,
                    stress_write_handler(),
                    ffi::DatabaseCallback {
                        callback: Some(init_points),
                        on_destroy: Some(noop_destroy),
                        ctx,
                    },
                );
                let filter = ffi::rodbus_address_filter_any();
                let port = free_port("127.0.0.1");
                let ip = cstr("127.0.0.1");
                let mut server: *mut rodbus_ffi::Server = std::ptr::null_mut();
                let rc = ffi::rodbus_server_create_tcp(ffi_rt.0, ip.as_ptr(), port, filter, 64, map, decode_nothing(), &mut server);
                ffi::rodbus_device_map_destroy(map);
                ffi::rodbus_address_filter_destroy(filter);
                if rc == 0 {
                    started = Some((server, port));
                    break;
                }
            }
        }
        let (server, port) = match started {
            Some(x) => x,
            None => {
                println!("FAIL:bind");
                continue;
            }
        };
        let stop = Arc::new(AtomicBool::new(false));
        let txns = Arc::new(AtomicU64::new(0));
        let tally = Arc::new(Mutex::new(Tally::default()));
        // ---- readers
        let mut tasks = Vec::new();
        for c in 0..clients {
            let (stop, tally) = (stop.clone(), tally.clone());
            tasks.push(rt.spawn(async move {
                let ch = spawn_tcp_client_task(
                    HostAddr::ip(IpAddr::from([127, 0, 0, 1]), port),
                    4,
                    rodbus::doubling_retry_strategy(Duration::from_millis(10), Duration::from_millis(40)),
                    DecodeLevel::nothing(),
                    None,
                );
                let _ = ch.enable().await;
                let param = RequestParam::new(UnitId::new(1), Duration::from_secs(5));
                let range = AddressRange::try_from(0, n).unwrap();
                let mut last: u16 = 0;
                while !stop.load(Ordering::SeqCst) {
                    if c % 2 == 0 {
                        match ch.read_holding_registers(param, range).await {
                            Ok(v) => {
                                let mut t = tally.lock().unwrap();
                                t.reads += 1;
                                let first = v[0].value;
                                t.distinct.insert(first);
                                if v.iter().any(|x| x.value != first) {
                                    t.mixed += 1;
                                    if t.first_mixed.is_none() {
                                        t.first_mixed = Some(v.iter().map(|x| x.value.to_string()).collect::<Vec<_>>().join(","));
                                    }
                                } else if first % 2 == 1 {
                                    // transaction values (odd) only grow; client-written values (even) interleave with them
                                    if first < last {
                                        t.backwards += 1;
                                    }
                                    last = first;
                                }
                            }
                            Err(RequestError::NoConnection) => tokio::time::sleep(Duration::from_millis(2)).await,
                            Err(_) => tally.lock().unwrap().errors += 1,
                        }
                    } else {
                        match ch.read_coils(param, range).await {
                            Ok(v) => {
                                let mut t = tally.lock().unwrap();
                                t.reads += 1;
                                let first = v[0].value;
                                if v.iter().any(|x| x.value != first) {
                                    t.mixed += 1;
                                    if t.first_mixed.is_none() {
                                        t.first_mixed = Some(v.iter().map(|x| (x.value as u8).to_string()).collect::<Vec<_>>().join(""));
                                    }
                                }
                            }
                            Err(RequestError::NoConnection) => tokio::time::sleep(Duration::from_millis(2)).await,
                            Err(_) => tally.lock().unwrap().errors += 1,
                        }
                    }
                }
            }));
        }
        // ---- a client that writes: its request runs the C write callback, which sets all points (even values)
        let client_writes = Arc::new(AtomicU64::new(0));
        {
            let (stop, cw) = (stop.clone(), client_writes.clone());
            tasks.push(rt.spawn(async move {
                let ch = spawn_tcp_client_task(
                    HostAddr::ip(IpAddr::from([127, 0, 0, 1]), port),
                    4,
                    rodbus::doubling_retry_strategy(Duration::from_millis(10), Duration::from_millis(40)),
                    DecodeLevel::nothing(),
                    None,
                );
                let _ = ch.enable().await;
                let param = RequestParam::new(UnitId::new(1), Duration::from_secs(5));
                let mut v: u16 = 0;
                while !stop.load(Ordering::SeqCst) {
                    v = v.wrapping_add(2);
                    match ch.write_single_register(param, Indexed::new(n, v)).await {
                        Ok(_) => {
                            cw.fetch_add(1, Ordering::SeqCst);
                        }
                        Err(_) => tokio::time::sleep(Duration::from_millis(2)).await,
                    }
                    tokio::time::sleep(Duration::from_micros(300)).await;
                }
            }));
        }
        // ---- writer (plain thread: the C API blocks on the handler mutex)
        let server_ptr = server as usize;
        let (stop_w, txns_w) = (stop.clone(), txns.clone());
        let writer = std::thread::spawn(move || {
            let mut value: u16 = 1;
            while !stop_w.load(Ordering::SeqCst) {
                value = value.wrapping_add(2); // odd values: transactions
                if value < 3 {
                    break;
                }
                let (_, ctx) = leak_ctx(Tx { n, value });
                let rc = unsafe {
                    ffi::rodbus_server_update_database(
                        server_ptr as *mut rodbus_ffi::Server,
                        1,
                        ffi::DatabaseCallback {
                            callback: Some(set_all),
                            on_destroy: Some(noop_destroy),
                            ctx,
                        },
                    )
                };
                if rc == 0 {
                    txns_w.fetch_add(1, Ordering::SeqCst);
                }
                // free the context of this transaction (it was only leaked to get a stable pointer)
                unsafe { drop(Box::from_raw(ctx as *mut Mutex<Tx>)) };
                std::thread::sleep(Duration::from_micros(400));
            }
        });
        let t0 = Instant::now();
        while t0.elapsed() < dur {
            std::thread::sleep(Duration::from_millis(20));
        }
        stop.store(true, Ordering::SeqCst);
        let _ = writer.join();
        rt.block_on(async {
            for t in tasks {
                let _ = tokio::time::timeout(Duration::from_secs(10), t).await;
            }
        });
        unsafe { ffi::rodbus_server_destroy(server) };
        let t = tally.lock().unwrap();
        let mut out = format!(
            "reads={} mixed={} backwards={} txns={} distinct={} errors={} client_writes={}",
            t.reads,
            t.mixed,
            t.backwards,
            txns.load(Ordering::SeqCst),
            t.distinct.len(),
            t.errors,
            client_writes.load(Ordering::SeqCst)
        );
        if let Some(m) = &t.first_mixed {
            out.push_str(&format!(" first_mixed={m}"));
        }
        println!("{out}");
    }
    0
}
