//! C01/C02/C08/C17: the production server session (`SessionTask::run` through
//! `rodbus::verif::run_server_session`) over the scripted in-memory transport, with instrumented
//! programmable point handlers and an instrumented authorization handler.
//!
//! input line:  <framing>|<units>|<auth>|<frames>
//!   framing : tcp | rtu
//!   units   : - | u;u;...      u = uid:m:c:rex:wex:coils:discrete:holding:input   (given in ascending uid order)
//!             or u = uid:=owner : unit id uid holds the same handler object as unit id owner (log entries
//!             of a handler object carry the owner's unit id)
//!             lists are `-` or comma separated dot-tuples:
//!             rex  kind.addr.code   a read (kind 0 coil,1 discrete,2 holding,3 input) of addr raises code
//!             wex  kind.addr.code   a write (kind 0 single coil,1 single register,2 coils,3 registers)
//!                                   that covers addr fails with code and changes nothing
//!             coils/discrete addr.(0|1)   holding/input addr.value   (explicit points)
//!             unlisted address a of kind k: d = (a*m + c + 977*k) mod 65536; register = d, bit = odd(d/4)
//!   auth    : none | <pol>:<rolehex>[:seed:pct]   pol = ro (ReadOnlyAuthorizationHandler, wrapped by a
//!             logger) | deny (a handler with only the trait's default methods, wrapped) | hash
//!             hash: h = seed mod 65521, then h = (h*31 + x + 7) mod 65521 for x in kind, unit, a, b,
//!             role bytes...; allow iff h mod 100 < pct   (index arguments: a = index, b = 0)
//!   frames  : - | comma separated hex ADUs; each is handed to the reader as one chunk and the task
//!             is run until it is parked before the next is sent. An entry `@min` / `@max` instead
//!             sends ServerCommand::ChangeDecoding through the session's command channel (and
//!             produces no reply entry). `@shutdown` sends ServerCommand::Shutdown, `@close` drops the
//!             only ServerHandle (the command channel closes). `@block` makes every write to the
//!             transport pend from now on, `@unblock` lets the pending and all later writes complete
//!             (what is written then is attributed to the last frame sent while blocked). `@failwrite`
//!             makes the reply write of the next frame fail with BrokenPipe (Wire::fail_next_write).
//!             Scripted transmit side (Wire::script_writes): `@Wa<k>` the next write call is taken only up to k bytes,
//!             `@Wb` the next write call is parked, `@R` room again (releases a parked write; what is written then is an
//!             extra reply entry). Pieces of one reply may therefore be spread over several entries.
//!             A hex entry need not be one ADU: any chunk of the byte stream (half a frame, many frames) may be
//!             given; its reply entry is everything written after it. `@reopen` (only with chunks, no other
//!             commands): see run_reopen_case.
//! argument `--decode min|max` (default min) sets the initial decode level: min = nothing,
//! max = (DataValues, Payload, Data). A tracing subscriber that formats every event into a sink is
//! installed once per process so that the Display / Loggable code really runs.
//! output line: <replies>|<log>|<end>
//!   replies : one entry per frame sent (`-` = nothing written), comma separated; frames after the
//!             session ended are not sent
//!   log     : ordered, `;` separated: rc/rd/rh/ri.<unit>.<first>-<last> (ascending runs merged),
//!             wsc.<unit>.<addr>.<0|1>  wsr.<unit>.<addr>.<value>
//!             wmc.<unit>.<start>.<count>.<items>  wmr...  items = <first addr>:<values> when the
//!             iterator's addresses are consecutive (bits as 0/1 chars, registers as 4 hex digits),
//!             otherwise !addr=value+...
//!             au.<kind 0..7>.<unit>.(r<start>.<count>|i<index>).<rolehex>
//!   end     : open | blocked (parked in a reply write that pends) | PANIC | the RequestError variant name
//!             that ended the session
//! A case whose session does not settle within the watchdog time (argument `--watchdog <s>`, default 4)
//! prints the single word WEDGED; its thread is abandoned.
use std::pin::Pin;
use std::sync::{Arc, Mutex};
use std::task::{Context, Poll, Waker};

use tokio::io::{AsyncRead, AsyncWrite, ReadBuf};

use rodbus::server::{
    Authorization, AuthorizationHandler, ReadOnlyAuthorizationHandler, RequestHandler, ServerHandlerMap, WriteCoils,
    WriteRegisters,
};
use rodbus::verif::{run_server_session, Framing, ServerSession};
use rodbus::server::ServerHandle;
use rodbus::{AddressRange, AppDecodeLevel, DecodeLevel, ExceptionCode, FrameDecodeLevel, Indexed, PhysDecodeLevel, UnitId};

use crate::util::{hex, unhex};
use crate::wire::{settle, Wire};

pub type Log = Arc<Mutex<Vec<String>>>;

/// the scripted wire with a gate on its write side: while `blocked`, writes pend
#[derive(Default)]
struct GateState {
    blocked: bool,
    pending: bool,
    waker: Option<Waker>,
}
struct Gate {
    wire: Wire,
    st: Arc<Mutex<GateState>>,
}
impl AsyncRead for Gate {
    fn poll_read(mut self: Pin<&mut Self>, cx: &mut Context<'_>, buf: &mut ReadBuf<'_>) -> Poll<std::io::Result<()>> {
        Pin::new(&mut self.wire).poll_read(cx, buf)
    }
}
impl AsyncWrite for Gate {
    fn poll_write(mut self: Pin<&mut Self>, cx: &mut Context<'_>, b: &[u8]) -> Poll<std::io::Result<usize>> {
        {
            let mut g = self.st.lock().unwrap();
            if g.blocked {
                g.pending = true;
                g.waker = Some(cx.waker().clone());
                return Poll::Pending;
            }
            g.pending = false;
        }
        Pin::new(&mut self.wire).poll_write(cx, b)
    }
    fn poll_flush(self: Pin<&mut Self>, _cx: &mut Context<'_>) -> Poll<std::io::Result<()>> {
        Poll::Ready(Ok(()))
    }
    fn poll_shutdown(self: Pin<&mut Self>, _cx: &mut Context<'_>) -> Poll<std::io::Result<()>> {
        Poll::Ready(Ok(()))
    }
}

pub struct Handler {
    unit: u8,
    m: u64,
    c: u64,
    rex: Vec<(u8, u16, u8)>,
    wex: Vec<(u8, u16, u8)>,
    bits: [Vec<(u16, bool)>; 2],
    regs: [Vec<(u16, u16)>; 2],
    log: Log,
}

impl Handler {
    fn dflt(&self, a: u16, k: u64) -> u64 {
        ((a as u64) * self.m + self.c + 977 * k) % 65536
    }
    fn rex(&self, k: u8, a: u16) -> Option<ExceptionCode> {
        self.rex.iter().find(|(kk, aa, _)| *kk == k && *aa == a).map(|(_, _, c)| ExceptionCode::from(*c))
    }
    fn wex(&self, k: u8, start: u16, count: u16) -> Option<ExceptionCode> {
        self.wex
            .iter()
            .find(|(kk, aa, _)| *kk == k && (*aa as u32) >= start as u32 && (*aa as u32) < start as u32 + count as u32)
            .map(|(_, _, c)| ExceptionCode::from(*c))
    }
    fn read_bit(&self, k: usize, name: &str, a: u16) -> Result<bool, ExceptionCode> {
        self.log.lock().unwrap().push(format!("{name}.{}.{a}", self.unit));
        if let Some(ex) = self.rex(k as u8, a) {
            return Err(ex);
        }
        match self.bits[k].iter().find(|(aa, _)| *aa == a) {
            Some((_, v)) => Ok(*v),
            None => Ok((self.dflt(a, k as u64) / 4) % 2 == 1),
        }
    }
    fn read_reg(&self, k: usize, name: &str, a: u16) -> Result<u16, ExceptionCode> {
        self.log.lock().unwrap().push(format!("{name}.{}.{a}", self.unit));
        if let Some(ex) = self.rex(2 + k as u8, a) {
            return Err(ex);
        }
        match self.regs[k].iter().find(|(aa, _)| *aa == a) {
            Some((_, v)) => Ok(*v),
            None => Ok(self.dflt(a, 2 + k as u64) as u16),
        }
    }
    fn set_bit(&mut self, a: u16, v: bool) {
        self.bits[0].retain(|(aa, _)| *aa != a);
        self.bits[0].insert(0, (a, v));
    }
    fn set_reg(&mut self, a: u16, v: u16) {
        self.regs[0].retain(|(aa, _)| *aa != a);
        self.regs[0].insert(0, (a, v));
    }
}

fn items_string<T: Copy>(items: &[Indexed<T>], show: impl Fn(T) -> String) -> String {
    let contiguous = items.iter().enumerate().all(|(i, x)| x.index as usize == items[0].index as usize + i);
    if items.is_empty() {
        return "-".to_string();
    }
    if contiguous {
        let mut s = format!("{}:", items[0].index);
        for x in items {
            s.push_str(&show(x.value));
        }
        s
    } else {
        let v: Vec<String> = items.iter().map(|x| format!("{}={}", x.index, show(x.value))).collect();
        format!("!{}", v.join("+"))
    }
}

impl RequestHandler for Handler {
    fn read_coil(&self, address: u16) -> Result<bool, ExceptionCode> {
        self.read_bit(0, "rc", address)
    }
    fn read_discrete_input(&self, address: u16) -> Result<bool, ExceptionCode> {
        self.read_bit(1, "rd", address)
    }
    fn read_holding_register(&self, address: u16) -> Result<u16, ExceptionCode> {
        self.read_reg(0, "rh", address)
    }
    fn read_input_register(&self, address: u16) -> Result<u16, ExceptionCode> {
        self.read_reg(1, "ri", address)
    }
    fn write_single_coil(&mut self, value: Indexed<bool>) -> Result<(), ExceptionCode> {
        self.log.lock().unwrap().push(format!("wsc.{}.{}.{}", self.unit, value.index, value.value as u8));
        if let Some(ex) = self.wex(0, value.index, 1) {
            return Err(ex);
        }
        self.set_bit(value.index, value.value);
        Ok(())
    }
    fn write_single_register(&mut self, value: Indexed<u16>) -> Result<(), ExceptionCode> {
        self.log.lock().unwrap().push(format!("wsr.{}.{}.{}", self.unit, value.index, value.value));
        if let Some(ex) = self.wex(1, value.index, 1) {
            return Err(ex);
        }
        self.set_reg(value.index, value.value);
        Ok(())
    }
    fn write_multiple_coils(&mut self, values: WriteCoils) -> Result<(), ExceptionCode> {
        let items: Vec<Indexed<bool>> = values.iterator.collect();
        self.log.lock().unwrap().push(format!(
            "wmc.{}.{}.{}.{}",
            self.unit,
            values.range.start,
            values.range.count,
            items_string(&items, |b| if b { "1".to_string() } else { "0".to_string() })
        ));
        if let Some(ex) = self.wex(2, values.range.start, values.range.count) {
            return Err(ex);
        }
        for x in items {
            self.set_bit(x.index, x.value);
        }
        Ok(())
    }
    fn write_multiple_registers(&mut self, values: WriteRegisters) -> Result<(), ExceptionCode> {
        let items: Vec<Indexed<u16>> = values.iterator.collect();
        self.log.lock().unwrap().push(format!(
            "wmr.{}.{}.{}.{}",
            self.unit,
            values.range.start,
            values.range.count,
            items_string(&items, |v| format!("{v:04X}"))
        ));
        if let Some(ex) = self.wex(3, values.range.start, values.range.count) {
            return Err(ex);
        }
        for x in items {
            self.set_reg(x.index, x.value);
        }
        Ok(())
    }
}

/// a handler that only has the trait's default method bodies
pub struct DefaultAuth;
impl AuthorizationHandler for DefaultAuth {}

pub enum Policy {
    Inner(Arc<dyn AuthorizationHandler>),
    Hash(u64, u64),
}

pub struct LoggedAuth {
    pub policy: Policy,
    pub log: Log,
}

impl LoggedAuth {
    fn decide(&self, kind: u64, unit: UnitId, a: u16, b: Option<u16>, role: &str, inner: impl Fn(&dyn AuthorizationHandler) -> Authorization) -> Authorization {
        let arg = match b {
            Some(count) => format!("r{a}.{count}"),
            None => format!("i{a}"),
        };
        self.log.lock().unwrap().push(format!("au.{kind}.{}.{arg}.{}", unit.value, hex(role.as_bytes())));
        match &self.policy {
            Policy::Inner(h) => inner(h.as_ref()),
            Policy::Hash(seed, pct) => {
                let mix = |h: u64, x: u64| (h * 31 + x + 7) % 65521;
                let mut h = seed % 65521;
                for x in [kind, unit.value as u64, a as u64, b.unwrap_or(0) as u64] {
                    h = mix(h, x);
                }
                for x in role.as_bytes() {
                    h = mix(h, *x as u64);
                }
                if h % 100 < *pct {
                    Authorization::Allow
                } else {
                    Authorization::Deny
                }
            }
        }
    }
}

impl AuthorizationHandler for LoggedAuth {
    fn read_coils(&self, unit_id: UnitId, range: AddressRange, role: &str) -> Authorization {
        self.decide(0, unit_id, range.start, Some(range.count), role, |h| h.read_coils(unit_id, range, role))
    }
    fn read_discrete_inputs(&self, unit_id: UnitId, range: AddressRange, role: &str) -> Authorization {
        self.decide(1, unit_id, range.start, Some(range.count), role, |h| h.read_discrete_inputs(unit_id, range, role))
    }
    fn read_holding_registers(&self, unit_id: UnitId, range: AddressRange, role: &str) -> Authorization {
        self.decide(2, unit_id, range.start, Some(range.count), role, |h| h.read_holding_registers(unit_id, range, role))
    }
    fn read_input_registers(&self, unit_id: UnitId, range: AddressRange, role: &str) -> Authorization {
        self.decide(3, unit_id, range.start, Some(range.count), role, |h| h.read_input_registers(unit_id, range, role))
    }
    fn write_single_coil(&self, unit_id: UnitId, idx: u16, role: &str) -> Authorization {
        self.decide(4, unit_id, idx, None, role, |h| h.write_single_coil(unit_id, idx, role))
    }
    fn write_single_register(&self, unit_id: UnitId, idx: u16, role: &str) -> Authorization {
        self.decide(5, unit_id, idx, None, role, |h| h.write_single_register(unit_id, idx, role))
    }
    fn write_multiple_coils(&self, unit_id: UnitId, range: AddressRange, role: &str) -> Authorization {
        self.decide(6, unit_id, range.start, Some(range.count), role, |h| h.write_multiple_coils(unit_id, range, role))
    }
    fn write_multiple_registers(&self, unit_id: UnitId, range: AddressRange, role: &str) -> Authorization {
        self.decide(7, unit_id, range.start, Some(range.count), role, |h| h.write_multiple_registers(unit_id, range, role))
    }
}

fn tuples(s: &str) -> Vec<Vec<u64>> {
    if s == "-" || s.is_empty() {
        return Vec::new();
    }
    s.split(',').map(|t| t.split('.').map(|x| x.parse::<u64>().expect("number")).collect()).collect()
}

pub fn parse_unit(s: &str, log: &Log) -> (u8, Handler) {
    let f: Vec<&str> = s.split(':').collect();
    assert!(f.len() == 9, "unit needs 9 fields: {s}");
    let t3 = |s: &str| -> Vec<(u8, u16, u8)> { tuples(s).iter().map(|t| (t[0] as u8, t[1] as u16, t[2] as u8)).collect() };
    let tb = |s: &str| -> Vec<(u16, bool)> { tuples(s).iter().map(|t| (t[0] as u16, t[1] != 0)).collect() };
    let tr = |s: &str| -> Vec<(u16, u16)> { tuples(s).iter().map(|t| (t[0] as u16, t[1] as u16)).collect() };
    let unit: u8 = f[0].parse().expect("unit id");
    (
        unit,
        Handler {
            unit,
            m: f[1].parse().expect("m"),
            c: f[2].parse().expect("c"),
            rex: t3(f[3]),
            wex: t3(f[4]),
            bits: [tb(f[5]), tb(f[6])],
            regs: [tr(f[7]), tr(f[8])],
            log: log.clone(),
        },
    )
}

pub fn parse_units(field: &str, log: &Log) -> ServerHandlerMap<Handler> {
    let mut map: ServerHandlerMap<Handler> = ServerHandlerMap::new();
    if field != "-" {
        // owners first, inserted in reverse, so that the order the session task visits them in
        // (BTreeMap: ascending unit id) differs from the insertion order
        let mut owners: Vec<(u8, rodbus::server::ServerHandlerType<Handler>)> = Vec::new();
        for u in field.split(';').rev() {
            if !u.contains(":=") {
                let (id, h) = parse_unit(u, log);
                let h = h.wrap();
                owners.push((id, h.clone()));
                map.add(UnitId::new(id), h);
            }
        }
        // `uid:=owner`: this unit id holds the SAME handler object as unit id `owner`
        for u in field.split(';') {
            if let Some((id, owner)) = u.split_once(":=") {
                let id: u8 = id.parse().expect("unit id");
                let owner: u8 = owner.parse().expect("owner unit id");
                let h = owners.iter().find(|(o, _)| *o == owner).expect("owner must be configured").1.clone();
                map.add(UnitId::new(id), h);
            }
        }
    }
    map
}

/// merge ascending runs of single-address read entries: rc.1.5, rc.1.6 -> rc.1.5-6
pub fn compress(log: &[String]) -> Vec<String> {
    let mut out: Vec<String> = Vec::new();
    let mut run: Option<(String, u64, u64)> = None; // prefix "rc.1", first, last
    let flush = |run: &mut Option<(String, u64, u64)>, out: &mut Vec<String>| {
        if let Some((p, a, b)) = run.take() {
            out.push(format!("{p}.{a}-{b}"));
        }
    };
    for e in log {
        let is_read = e.starts_with("rc.") || e.starts_with("rd.") || e.starts_with("rh.") || e.starts_with("ri.");
        if is_read {
            let idx = e.rfind('.').unwrap();
            let prefix = e[..idx].to_string();
            let a: u64 = e[idx + 1..].parse().unwrap();
            match &mut run {
                Some((p, _, last)) if *p == prefix && *last + 1 == a => {
                    *last = a;
                }
                _ => {
                    flush(&mut run, &mut out);
                    run = Some((prefix, a, a));
                }
            }
        } else {
            flush(&mut run, &mut out);
            out.push(e.clone());
        }
    }
    flush(&mut run, &mut out);
    out
}

fn decode_level(name: &str) -> DecodeLevel {
    match name {
        "min" => DecodeLevel::nothing(),
        "max" => DecodeLevel::new(AppDecodeLevel::DataValues, FrameDecodeLevel::Payload, PhysDecodeLevel::Data),
        x => panic!("bad decode level {x}"),
    }
}

/// ONE SessionTask (one FramedReader, one handler map) run over several consecutive transports, as
/// serial/server.rs::RtuServerTask does across port re-opens. Tokens: hex chunks, and `@reopen`: the
/// current port session is ended (end of stream, unless it has already ended with an error) and the
/// same session is run over a fresh transport.
/// output end: the ends of the port sessions joined by `+` (`open` for one still running)
async fn run_reopen_case(
    map: ServerHandlerMap<Handler>,
    auth: Option<(Arc<dyn AuthorizationHandler>, String)>,
    framing: Framing,
    decode: DecodeLevel,
    tokens: Vec<String>,
    log: Log,
) -> String {
    let mut session = ServerSession::new(map, auth, framing, decode);
    let mut replies: Vec<String> = Vec::new();
    let mut ends: Vec<String> = Vec::new();
    let mut groups: Vec<Vec<String>> = vec![Vec::new()];
    for t in tokens {
        if t == "@reopen" {
            groups.push(Vec::new());
        } else {
            groups.last_mut().unwrap().push(t);
        }
    }
    let n = groups.len();
    for (gi, group) in groups.into_iter().enumerate() {
        let wire = Wire::new();
        let fut = session.run(Box::new(wire.clone()));
        tokio::pin!(fut);
        let mut ended: Option<String> = None;
        let name = |e: rodbus::RequestError| format!("{e:?}").split('(').next().unwrap_or("").to_string();
        for t in group {
            if ended.is_some() {
                break;
            }
            assert!(!t.starts_with('@'), "only chunks and @reopen in a re-open script");
            wire.push(&unhex(&t));
            tokio::select! {
                biased;
                e = &mut fut => { ended = Some(name(e)); }
                _ = settle() => {}
            }
            let out = wire.take_out().concat();
            replies.push(if out.is_empty() { "-".to_string() } else { hex(&out) });
        }
        if ended.is_none() && gi + 1 < n {
            wire.set_eof();
            tokio::select! {
                biased;
                e = &mut fut => { ended = Some(name(e)); }
                _ = settle() => {}
            }
        }
        ends.push(ended.unwrap_or_else(|| "open".to_string()));
    }
    let log = compress(&log.lock().unwrap());
    format!(
        "{}|{}|{}",
        if replies.is_empty() { "-".to_string() } else { replies.join(",") },
        if log.is_empty() { "-".to_string() } else { log.join(";") },
        ends.join("+")
    )
}

fn run_case(line: &str, decode: DecodeLevel) -> String {
    let f: Vec<&str> = line.trim().split('|').collect();
    assert!(f.len() == 4, "case needs 4 fields");
    let framing = match f[0] {
        "tcp" => Framing::Tcp,
        "rtu" => Framing::RtuRequest,
        x => panic!("bad framing {x}"),
    };
    let log: Log = Arc::new(Mutex::new(Vec::new()));
    let map = parse_units(f[1], &log);
    let auth: Option<(Arc<dyn AuthorizationHandler>, String)> = if f[2] == "none" {
        None
    } else {
        let a: Vec<&str> = f[2].split(':').collect();
        let role = String::from_utf8(unhex(a[1])).expect("role must be utf-8");
        let policy = match a[0] {
            "ro" => Policy::Inner(ReadOnlyAuthorizationHandler::create()),
            "deny" => Policy::Inner(DefaultAuth.wrap()),
            "hash" => Policy::Hash(a[2].parse().expect("seed"), a[3].parse().expect("pct")),
            x => panic!("bad policy {x}"),
        };
        Some((Arc::new(LoggedAuth { policy, log: log.clone() }), role))
    };
    let frames: Vec<String> = if f[3] == "-" { Vec::new() } else { f[3].split(',').map(|x| x.to_string()).collect() };

    let rt = tokio::runtime::Builder::new_current_thread().enable_time().start_paused(true).build().unwrap();
    if frames.iter().any(|x| x == "@reopen") {
        return rt.block_on(run_reopen_case(map, auth, framing, decode, frames, log));
    }
    let (replies, end) = rt.block_on(async move {
        let wire = Wire::new();
        let (tx, rx) = tokio::sync::mpsc::channel(64);
        let mut handle = Some(ServerHandle::new(tx));
        let gate = Arc::new(Mutex::new(GateState::default()));
        let io = Box::new(Gate { wire: wire.clone(), st: gate.clone() });
        let task = tokio::spawn(async move { run_server_session(io, map, auth, framing, decode, rx).await });
        let mut replies: Vec<String> = Vec::new();
        let mut last_blocked: Option<usize> = None;
        settle().await;
        for fr in frames {
            if task.is_finished() {
                break;
            }
            if let Some(cmd) = fr.strip_prefix('@') {
                match cmd {
                    "shutdown" => {
                        // a session that does not drain its command queue must not wedge the harness
                        if let Some(h) = handle.as_mut() {
                            let _ = tokio::time::timeout(std::time::Duration::from_millis(10), h.shutdown()).await;
                        }
                    }
                    "close" => {
                        handle = None;
                    }
                    "block" => {
                        gate.lock().unwrap().blocked = true;
                    }
                    "Wb" => {
                        // the transmit path is full: the next write call is parked until @R
                        wire.script_writes(&[crate::wire::WriteStep::Block]);
                    }
                    "R" => {
                        // room again: whatever is left of the transmit script (steps a silent frame did not use) is dropped
                        wire.0.lock().unwrap().write_script.clear();
                        wire.release_write();
                        settle().await;
                        let out = wire.take_out().concat();
                        replies.push(if out.is_empty() { "-".to_string() } else { hex(&out) });
                        continue;
                    }
                    x if x.starts_with("Wa") => {
                        // the next write call is taken only up to k bytes (write_all goes on with the rest)
                        wire.script_writes(&[crate::wire::WriteStep::Accept(x[2..].parse().expect("Wa<k>"))]);
                    }
                    "failwrite" => {
                        // the reply write of the NEXT frame fails (disarmed again if that frame is not answered)
                        wire.fail_next_write(std::io::ErrorKind::BrokenPipe);
                    }
                    "unblock" => {
                        let w = {
                            let mut g = gate.lock().unwrap();
                            g.blocked = false;
                            g.waker.take()
                        };
                        if let Some(w) = w {
                            w.wake();
                        }
                        settle().await;
                        let out = wire.take_out().concat();
                        if let (Some(ix), false) = (last_blocked, out.is_empty()) {
                            // pieces of that reply may already have gone out (scripted transmit side)
                            replies[ix] = if replies[ix] == "-" { hex(&out) } else { format!("{}{}", replies[ix], hex(&out)) };
                        }
                        last_blocked = None;
                        continue;
                    }
                    level => {
                        if let Some(h) = handle.as_mut() {
                            let _ = tokio::time::timeout(std::time::Duration::from_millis(10), h.set_decode_level(decode_level(level))).await;
                        }
                    }
                }
                settle().await;
                continue;
            }
            wire.push(&unhex(&fr));
            settle().await;
            wire.0.lock().unwrap().fail_write = None;
            let out = wire.take_out().concat();
            if gate.lock().unwrap().blocked {
                last_blocked = Some(replies.len());
            }
            replies.push(if out.is_empty() { "-".to_string() } else { hex(&out) });
        }
        let end = if task.is_finished() {
            match task.await {
                Ok(err) => {
                    let d = format!("{err:?}");
                    d.split('(').next().unwrap_or("").to_string()
                }
                Err(e) if e.is_panic() => "PANIC".to_string(),
                Err(_) => "CANCELLED".to_string(),
            }
        } else {
            task.abort();
            if gate.lock().unwrap().pending { "blocked".to_string() } else { "open".to_string() }
        };
        (replies, end)
    });
    let log = compress(&log.lock().unwrap());
    format!(
        "{}|{}|{}",
        if replies.is_empty() { "-".to_string() } else { replies.join(",") },
        if log.is_empty() { "-".to_string() } else { log.join(";") },
        end
    )
}

pub fn main(args: &[String]) -> i32 {
    crate::util::quiet_panics();
    let mut decode = DecodeLevel::nothing();
    let mut watchdog: u64 = 4;
    let mut i = 0;
    while i < args.len() {
        if args[i] == "--decode" && i + 1 < args.len() {
            decode = decode_level(&args[i + 1]);
            i += 2;
        } else if args[i] == "--watchdog" && i + 1 < args.len() {
            watchdog = args[i + 1].parse().expect("seconds");
            i += 2;
        } else {
            eprintln!("unknown argument {:?}", args[i]);
            return 2;
        }
    }
    let _ = tracing_subscriber::fmt().with_writer(std::io::sink).with_max_level(tracing::Level::TRACE).try_init();
    // every case runs on its own thread under a watchdog: a session that never settles (for instance a
    // worker blocked for good in a std Mutex) is reported as WEDGED, its thread is abandoned and the
    // remaining cases go on
    for line in crate::util::stdin_lines() {
        let l = line.clone();
        let (tx, rx) = std::sync::mpsc::channel();
        std::thread::spawn(move || {
            let r = std::panic::catch_unwind(move || run_case(&l, decode));
            let _ = tx.send(match r {
                Ok(s) => s,
                Err(_) => "PANIC".to_string(),
            });
        });
        match rx.recv_timeout(std::time::Duration::from_secs(watchdog)) {
            Ok(s) => println!("{s}"),
            Err(_) => println!("WEDGED"),
        }
    }
    0
}
