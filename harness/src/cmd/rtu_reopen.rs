//! C06 (RTU server across port re-opens): the production SessionTask with RTU framing, ONE session
//! (one FramedReader) run over several consecutive transports, as serial/server.rs::RtuServerTask does:
//! a port session runs until next_frame fails, then the port is re-opened with the same session.
//! Units 1 and 2 are served; every handler call is logged.
//! input line:  <eof|err> <chunk hex>... / <eof|err> <chunk hex>... / ...      (one port session per group)
//!   bytes a port session did not read before it ended (a framing error in what was already buffered) stay on
//!   the bus: they are the first thing the next port session reads. After the scripted port sessions, further
//!   ones (nothing new arrives, EOF) are opened until a session ends with an I/O error rather than a framing
//!   error, so that everything buffered gets parsed
//! output line: calls=<u<unit>:<op>(args);...|-> replies=<hex,hex|-> ends=<class;class;..>
//! optional argument: --decode min|max
use crate::util::{hex, unhex};
use crate::wire::Wire;
use rodbus::server::{RequestHandler, ServerHandlerMap, WriteCoils, WriteRegisters};
use rodbus::verif::{Framing, ServerSession};
use rodbus::{DecodeLevel, ExceptionCode, Indexed, UnitId};
use std::sync::{Arc, Mutex};

struct H {
    unit: u8,
    log: Arc<Mutex<Vec<String>>>,
}
impl H {
    fn note(&self, s: String) {
        self.log.lock().unwrap().push(format!("u{}:{}", self.unit, s));
    }
}
impl RequestHandler for H {
    fn read_coil(&self, a: u16) -> Result<bool, ExceptionCode> { self.note(format!("rc({a})")); Ok(a % 3 == 0) }
    fn read_discrete_input(&self, a: u16) -> Result<bool, ExceptionCode> { self.note(format!("rd({a})")); Ok(a % 3 == 0) }
    fn read_holding_register(&self, a: u16) -> Result<u16, ExceptionCode> { self.note(format!("rh({a})")); Ok(a.wrapping_mul(31)) }
    fn read_input_register(&self, a: u16) -> Result<u16, ExceptionCode> { self.note(format!("ri({a})")); Ok(a.wrapping_mul(31)) }
    fn write_single_coil(&mut self, v: Indexed<bool>) -> Result<(), ExceptionCode> { self.note(format!("wsc({},{})", v.index, v.value as u8)); Ok(()) }
    fn write_single_register(&mut self, v: Indexed<u16>) -> Result<(), ExceptionCode> { self.note(format!("wsr({},{})", v.index, v.value)); Ok(()) }
    fn write_multiple_coils(&mut self, v: WriteCoils) -> Result<(), ExceptionCode> { self.note(format!("wmc({},{})", v.range.start, v.range.count)); Ok(()) }
    fn write_multiple_registers(&mut self, v: WriteRegisters) -> Result<(), ExceptionCode> { self.note(format!("wmr({},{})", v.range.start, v.range.count)); Ok(()) }
}

async fn run_case(line: String, decode: DecodeLevel) -> String {
    let log = Arc::new(Mutex::new(Vec::new()));
    let mut map = ServerHandlerMap::new();
    map.add(UnitId::new(1), H { unit: 1, log: log.clone() }.wrap());
    map.add(UnitId::new(2), H { unit: 2, log: log.clone() }.wrap());
    let mut session = ServerSession::new(map, None, Framing::RtuRequest, decode);
    let mut replies: Vec<String> = Vec::new();
    let mut ends: Vec<String> = Vec::new();
    let mut groups: Vec<String> = line.split('/').map(|s| s.trim().to_string()).collect();
    let mut extra = 0;
    let mut i = 0;
    let mut carry: Vec<Vec<u8>> = Vec::new();
    while i < groups.len() {
        let parts: Vec<&str> = groups[i].split_whitespace().collect();
        let wire = Wire::new();
        for c in carry.drain(..) {
            wire.push(&c);
        }
        for c in &parts[1..] {
            wire.push(&unhex(c));
        }
        match parts[0] {
            "eof" => wire.set_eof(),
            "err" => wire.set_read_error(std::io::ErrorKind::ConnectionReset),
            f => panic!("bad ending {f:?}"),
        }
        let e = session.run(Box::new(wire.clone())).await;
        for r in wire.take_out() {
            replies.push(hex(&r));
        }
        carry = wire.0.lock().unwrap().inbound.drain(..).collect();
        let class = super::frames::show_error(&e);
        let framing_error = class.starts_with("BadFrame") || class == "Internal";
        ends.push(class);
        i += 1;
        if i == groups.len() && (framing_error || !carry.is_empty()) && extra < 300 {
            // the port is re-opened; nothing more arrives
            groups.push("eof".to_string());
            extra += 1;
        }
    }
    let calls = log.lock().unwrap().join(";");
    format!(
        "calls={} replies={} ends={}",
        if calls.is_empty() { "-".to_string() } else { calls },
        if replies.is_empty() { "-".to_string() } else { replies.join(",") },
        ends.join(";")
    )
}

pub fn main(args: &[String]) -> i32 {
    crate::util::quiet_panics();
    let decode = crate::util::decode_arg(args);
    for line in crate::util::stdin_lines() {
        let res = std::panic::catch_unwind(move || {
            let rt = tokio::runtime::Builder::new_current_thread().enable_time().start_paused(true).build().unwrap();
            rt.block_on(run_case(line, decode))
        });
        match res {
            Ok(s) => println!("{s}"),
            Err(e) => println!("{}", crate::util::panic_name(&e)),
        }
    }
    0
}
