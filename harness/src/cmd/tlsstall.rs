//! C15 / C09 observation probe (not a check): connections that never complete the TLS handshake.
//! `run_session` awaits the handshake without looking at the session's command channel, so neither
//! eviction (sender dropped) nor server shutdown reaches such a connection.
//! input line: <max_sessions> <n stalled connections> <certs dir (ca_cert.pem server_cert.pem server_key.pem)>
//! output line: open-after-connect=<k>/<n> open-after-shutdown=<k>/<n> port-after-shutdown=<open|closed>
use std::io::Read;
use std::net::{Ipv4Addr, SocketAddr, TcpStream};
use std::path::Path;
use std::time::Duration;

use rodbus::server::*;
use rodbus::*;

struct H;
impl RequestHandler for H {}

fn is_open(s: &TcpStream) -> bool {
    let mut s = s;
    let _ = s.set_read_timeout(Some(Duration::from_millis(30)));
    let mut b = [0u8; 8];
    match s.read(&mut b) {
        Ok(0) => false,
        Ok(_) => true,
        Err(e) => matches!(e.kind(), std::io::ErrorKind::WouldBlock | std::io::ErrorKind::TimedOut),
    }
}

pub fn main(_args: &[String]) -> i32 {
    let rt = tokio::runtime::Builder::new_multi_thread().worker_threads(2).enable_all().build().unwrap();
    for line in crate::util::stdin_lines() {
        let p: Vec<&str> = line.split_whitespace().collect();
        let max: usize = p[0].parse().unwrap();
        let n: usize = p[1].parse().unwrap();
        let dir = Path::new(p[2]);
        let cfg = TlsServerConfig::new(&dir.join("ca_cert.pem"), &dir.join("server_cert.pem"), &dir.join("server_key.pem"), None, MinTlsVersion::V1_2, CertificateMode::AuthorityBased).unwrap();
        let ip = Ipv4Addr::new(127, 0, 0, 1);
        let port = std::net::TcpListener::bind((ip, 0)).unwrap().local_addr().unwrap().port();
        let addr = SocketAddr::from((ip, port));
        let map = ServerHandlerMap::single(UnitId::new(1), H.wrap());
        let handle = rt.block_on(spawn_tls_server_task(max, addr, map, cfg, AddressFilter::Any, DecodeLevel::nothing())).unwrap();
        let conns: Vec<TcpStream> = (0..n).map(|_| TcpStream::connect(addr).unwrap()).collect();
        std::thread::sleep(Duration::from_millis(400));
        let open1 = conns.iter().filter(|c| is_open(c)).count();
        rt.block_on(handle.shutdown()).unwrap();
        drop(handle);
        std::thread::sleep(Duration::from_millis(1500));
        let open2 = conns.iter().filter(|c| is_open(c)).count();
        let port_open = TcpStream::connect(addr).is_ok();
        println!("open-after-connect={open1}/{n} open-after-shutdown={open2}/{n} port-after-shutdown={}", if port_open { "open" } else { "closed" });
    }
    0
}
