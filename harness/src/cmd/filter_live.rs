//! C16: live servers of every variant on loopback, probed from chosen source addresses.
//! args:        <repo path>   (TLS material under <repo>/certs)
//! input line:  <api> <variant> <ctor> <bind_ip> <filter> <peer>[,<peer>...]
//!   api     = rust | ffi
//!   variant = tcp | tls | tlsauthz
//!   ctor    = spawn | create      (Rust API only: spawn_*_server_task vs create_*_server_task; ffi ignores it)
//!   filter  = any | exact=IP | set=IP+IP+.. | wc=PATTERN | emptyset | insrem=IP+IP.. (Rust API only: AnyOf(empty), AnyOf emptied again)
//!   peer    = @D : not a connection - ServerHandle::set_decode_level / rodbus_server_set_decode_level is called here (code D, or
//!             E:<why>), 30 ms are given to the server task to process it; otherwise the
//!             source IP the client socket is bound to before connecting to <bind_ip> (or to 127.0.0.1 when
//!             the server is bound to a wildcard address)
//! or:         reuse <variant+variant..> <bind_ip> <filter> <address added afterwards or -> <peers>   (one C-ABI filter object, several servers)
//! or:         fseq <create string, hex> <add strings, hex, comma separated or -> <Rust API filter in the syntax above, or ERR> <peers>
//!             C ABI: rodbus_address_filter_create, then rodbus_address_filter_add per string, then a TCP server with the object;
//!             Rust API: a TCP server with the given filter. output: create=<rc>;add=<rc>,..;ffi=<codes or ->;rust=<codes or ->
//! output line: one code per peer, comma separated: S served (Modbus reply / TLS ServerHello arrived),
//!   C closed without a byte, O open and silent, B<hex> other bytes, E:<kind> connect error; or FAIL:<why>
use super::p5_common::*;
use rodbus::server::*;
use rodbus::{DecodeLevel, UnitId};
use std::net::{IpAddr, SocketAddr};
use std::os::raw::{c_char, c_int, c_void};
use std::sync::atomic::{AtomicUsize, Ordering};
use std::sync::{Arc, Mutex};
use std::time::Duration;

struct Handler;
impl RequestHandler for Handler {}

struct Env {
    rt: tokio::runtime::Runtime,
    ffi_rt: FfiRuntime,
    repo: String,
    paths: TlsPaths,
}

fn parse_filter(spec: &str) -> Result<AddressFilter, String> {
    if spec == "any" {
        return Ok(AddressFilter::Any);
    }
    if spec == "emptyset" {
        return Ok(AddressFilter::AnyOf(std::collections::HashSet::new()));
    }
    let (k, v) = spec.split_once('=').ok_or("filter syntax")?;
    match k {
        // a set that is empty again: every address inserted, then removed
        "insrem" => {
            let mut s = std::collections::HashSet::new();
            for x in v.split('+') {
                s.insert(x.parse::<IpAddr>().map_err(|_| "bad ip")?);
            }
            for x in v.split('+') {
                s.remove(&x.parse::<IpAddr>().map_err(|_| "bad ip")?);
            }
            Ok(AddressFilter::AnyOf(s))
        }
        "exact" => Ok(AddressFilter::Exact(v.parse().map_err(|_| "bad ip")?)),
        "set" => {
            let mut s = std::collections::HashSet::new();
            for x in v.split('+') {
                s.insert(x.parse::<IpAddr>().map_err(|_| "bad ip")?);
            }
            Ok(AddressFilter::AnyOf(s))
        }
        "wc" => Ok(AddressFilter::WildcardIpv4(v.parse().map_err(|_| "bad wildcard")?)),
        _ => Err("filter kind".into()),
    }
}

unsafe fn ffi_filter(spec: &str) -> Result<*mut rodbus_ffi::AddressFilter, String> {
    if spec == "any" {
        return Ok(ffi::rodbus_address_filter_any());
    }
    let (k, v) = spec.split_once('=').ok_or("filter syntax")?;
    let mut parts = match k {
        "exact" | "wc" => vec![v],
        "set" => v.split('+').collect(),
        _ => return Err("filter kind".into()),
    };
    let first = cstr(parts.remove(0));
    let mut out: *mut rodbus_ffi::AddressFilter = std::ptr::null_mut();
    let rc = ffi::rodbus_address_filter_create(first.as_ptr(), &mut out);
    if rc != 0 {
        return Err(format!("address_filter_create:{}", param_error_name(rc)));
    }
    for p in parts {
        let c = cstr(p);
        let rc = ffi::rodbus_address_filter_add(out, c.as_ptr());
        if rc != 0 {
            return Err(format!("address_filter_add:{}", param_error_name(rc)));
        }
    }
    Ok(out)
}

extern "C" fn allow_range(_u: u8, _r: ffi::AddressRange, _role: *const c_char, _ctx: *mut c_void) -> c_int {
    ffi::Authorization::Allow.into()
}
extern "C" fn allow_index(_u: u8, _i: u16, _role: *const c_char, _ctx: *mut c_void) -> c_int {
    ffi::Authorization::Allow.into()
}

fn ffi_auth_handler() -> ffi::AuthorizationHandler {
    ffi::AuthorizationHandler {
        read_coils: Some(allow_range),
        read_discrete_inputs: Some(allow_range),
        read_holding_registers: Some(allow_range),
        read_input_registers: Some(allow_range),
        write_single_coil: Some(allow_index),
        write_single_register: Some(allow_index),
        write_multiple_coils: Some(allow_range),
        write_multiple_registers: Some(allow_range),
        on_destroy: Some(noop_destroy),
        ctx: std::ptr::null_mut(),
    }
}

enum Server {
    Rust(#[allow(dead_code)] ServerHandle),
    Ffi(*mut rodbus_ffi::Server, *mut rodbus_ffi::AddressFilter),
}

fn start_rust(env: &Env, variant: &str, ctor: &str, bind_ip: IpAddr, filter: AddressFilter) -> Result<(Server, u16), String> {
    let mut last = String::new();
    for _ in 0..8 {
        let map = ServerHandlerMap::single(UnitId::new(1), Handler.wrap());
        let level = DecodeLevel::nothing();
        if ctor == "create" {
            let listener = env
                .rt
                .block_on(tokio::net::TcpListener::bind(SocketAddr::new(bind_ip, 0)))
                .map_err(|e| format!("bind:{:?}", e.kind()))?;
            let port = listener.local_addr().unwrap().port();
            let _guard = env.rt.enter();
            let (handle, task) = match variant {
                "tcp" => create_tcp_server_task(64, listener, map, filter.clone(), level),
                "tls" => create_tls_server_task(64, listener, map, rust_tls_server_config(&env.repo), filter.clone(), level),
                "tlsauthz" => create_tls_server_task_with_authz(
                    64,
                    listener,
                    map,
                    ReadOnlyAuthorizationHandler::create(),
                    rust_tls_server_config(&env.repo),
                    filter.clone(),
                    level,
                ),
                _ => return Err("variant".into()),
            };
            env.rt.spawn(task.run());
            return Ok((Server::Rust(handle), port));
        }
        let port = free_port(&bind_ip.to_string());
        let addr = SocketAddr::new(bind_ip, port);
        let res = match variant {
            "tcp" => env.rt.block_on(spawn_tcp_server_task(64, addr, map, filter.clone(), level)),
            "tls" => env
                .rt
                .block_on(spawn_tls_server_task(64, addr, map, rust_tls_server_config(&env.repo), filter.clone(), level)),
            "tlsauthz" => env.rt.block_on(spawn_tls_server_task_with_authz(
                64,
                addr,
                map,
                ReadOnlyAuthorizationHandler::create(),
                rust_tls_server_config(&env.repo),
                filter.clone(),
                level,
            )),
            _ => return Err("variant".into()),
        };
        match res {
            Ok(h) => return Ok((Server::Rust(h), port)),
            Err(e) => last = format!("{:?}", e.kind()),
        }
    }
    Err(format!("bind failed repeatedly: {last}"))
}

/// create one C-ABI server of the given variant from an EXISTING filter object (which the caller keeps)
fn start_ffi_with(env: &Env, variant: &str, bind_ip: IpAddr, filter: *mut rodbus_ffi::AddressFilter) -> Result<(*mut rodbus_ffi::Server, u16), String> {
    let mut last = String::new();
    for _ in 0..8 {
        unsafe {
            let map = simple_device_map();
            let port = free_port(&bind_ip.to_string());
            let ip = cstr(&bind_ip.to_string());
            let mut out: *mut rodbus_ffi::Server = std::ptr::null_mut();
            let rc = match variant {
                "tcp" => ffi::rodbus_server_create_tcp(env.ffi_rt.0, ip.as_ptr(), port, filter, 64, map, decode_nothing(), &mut out),
                "tls" => ffi::rodbus_server_create_tls(
                    env.ffi_rt.0,
                    ip.as_ptr(),
                    port,
                    filter,
                    64,
                    map,
                    ffi_tls_server_config(&env.paths),
                    decode_nothing(),
                    &mut out,
                ),
                "tlsauthz" => ffi::rodbus_server_create_tls_with_authz(
                    env.ffi_rt.0,
                    ip.as_ptr(),
                    port,
                    filter,
                    64,
                    map,
                    ffi_tls_server_config(&env.paths),
                    ffi_auth_handler(),
                    decode_nothing(),
                    &mut out,
                ),
                _ => return Err("variant".into()),
            };
            ffi::rodbus_device_map_destroy(map);
            if rc == 0 {
                return Ok((out, port));
            }
            last = param_error_name(rc);
            if rc != ffi::ParamError::ServerBindError as i32 {
                return Err(format!("server_create:{last}"));
            }
        }
    }
    Err(format!("bind failed repeatedly: {last}"))
}

fn start_ffi(env: &Env, variant: &str, bind_ip: IpAddr, spec: &str) -> Result<(Server, u16), String> {
    let filter = unsafe { ffi_filter(spec)? };
    match start_ffi_with(env, variant, bind_ip, filter) {
        Ok((s, port)) => Ok((Server::Ffi(s, filter), port)),
        Err(e) => {
            unsafe { ffi::rodbus_address_filter_destroy(filter) };
            Err(e)
        }
    }
}

fn probe_all(env: &Env, bind_ip: IpAddr, port: u16, tls: bool, peers: &str) -> String {
    let mut out = Vec::new();
    for peer in peers.split(',') {
        let src: IpAddr = match peer.parse() {
            Ok(x) => x,
            Err(_) => {
                out.push("E:peer".to_string());
                continue;
            }
        };
        let dst_ip: IpAddr = if bind_ip.is_unspecified() {
            match src {
                IpAddr::V4(_) => "127.0.0.1".parse().unwrap(),
                IpAddr::V6(_) => "::1".parse().unwrap(),
            }
        } else {
            bind_ip
        };
        let r = env.rt.block_on(probe(src, SocketAddr::new(dst_ip, port), tls, Duration::from_millis(2500)));
        out.push(r.code());
    }
    out.join(",")
}

/// reuse <variant+variant..> <bind_ip> <filter> <address added afterwards or -> <peers>:
/// ONE rodbus_address_filter_t, several servers created from it in the given order; then (optionally)
/// rodbus_address_filter_add on the object, then rodbus_address_filter_destroy; only then the servers are probed.
/// Every server must keep the filter it was created with. Output: <variant>:<codes> per server, ';' separated.
fn reuse(env: &Env, p: &[&str]) -> String {
    if p.len() != 6 {
        return "FAIL:syntax".into();
    }
    let (variants, bind, spec, added, peers) = (p[1], p[2], p[3], p[4], p[5]);
    let bind_ip: IpAddr = match bind.parse() {
        Ok(x) => x,
        Err(_) => return "FAIL:bind_ip".into(),
    };
    let filter = match unsafe { ffi_filter(spec) } {
        Ok(f) => f,
        Err(e) => return format!("FAIL:{e}"),
    };
    let mut servers = Vec::new();
    for v in variants.split('+') {
        match start_ffi_with(env, v, bind_ip, filter) {
            Ok((s, port)) => servers.push((v, s, port)),
            Err(e) => {
                for (_, s, _) in &servers {
                    unsafe { ffi::rodbus_server_destroy(*s) };
                }
                unsafe { ffi::rodbus_address_filter_destroy(filter) };
                return format!("FAIL:{e}");
            }
        }
    }
    let mut add_rc = String::new();
    if added != "-" {
        let c = cstr(added);
        let rc = unsafe { ffi::rodbus_address_filter_add(filter, c.as_ptr()) };
        add_rc = format!(";add={}", param_error_name(rc));
    }
    unsafe { ffi::rodbus_address_filter_destroy(filter) };
    let mut out = Vec::new();
    for (v, _, port) in &servers {
        out.push(format!("{v}:{}", probe_all(env, bind_ip, *port, *v != "tcp", peers)));
    }
    for (_, s, _) in &servers {
        unsafe { ffi::rodbus_server_destroy(*s) };
    }
    out.join(";") + &add_rc
}

fn fseq(env: &Env, p: &[&str]) -> String {
    if p.len() != 5 {
        return "FAIL:syntax".into();
    }
    let bind_ip: IpAddr = "127.0.0.1".parse().unwrap();
    let unhex = |h: &str| -> std::ffi::CString { std::ffi::CString::new(crate::util::unhex(h)).unwrap_or_else(|_| cstr("?")) };
    let create = if p[1] == "-" { cstr("") } else { unhex(p[1]) };
    let mut filter: *mut rodbus_ffi::AddressFilter = std::ptr::null_mut();
    let rc = unsafe { ffi::rodbus_address_filter_create(create.as_ptr(), &mut filter) };
    let mut out = vec![format!("create={}", param_error_name(rc))];
    let mut adds = Vec::new();
    if rc == 0 && !filter.is_null() && p[2] != "-" {
        for a in p[2].split(',') {
            let c = unhex(a);
            adds.push(param_error_name(unsafe { ffi::rodbus_address_filter_add(filter, c.as_ptr()) }));
        }
    }
    out.push(format!("add={}", if adds.is_empty() { "-".to_string() } else { adds.join(",") }));
    if rc == 0 && !filter.is_null() {
        match start_ffi_with(env, "tcp", bind_ip, filter) {
            Ok((srv, port)) => {
                out.push(format!("ffi={}", probe_all(env, bind_ip, port, false, p[4])));
                unsafe { ffi::rodbus_server_destroy(srv) };
            }
            Err(e) => out.push(format!("ffi=FAIL:{e}")),
        }
        unsafe { ffi::rodbus_address_filter_destroy(filter) };
    } else {
        out.push("ffi=-".into());
    }
    if p[3] == "ERR" {
        out.push("rust=-".into());
    } else {
        match parse_filter(p[3]).and_then(|f| start_rust(env, "tcp", "create", bind_ip, f)) {
            Ok((_server, port)) => out.push(format!("rust={}", probe_all(env, bind_ip, port, false, p[4]))),
            Err(e) => out.push(format!("rust=FAIL:{e}")),
        }
    }
    out.join(";")
}

fn scenario(env: &Env, line: &str) -> String {
    let p: Vec<&str> = line.split_whitespace().collect();
    if p.first() == Some(&"reuse") {
        return reuse(env, &p);
    }
    if p.first() == Some(&"fseq") {
        return fseq(env, &p);
    }
    if p.len() != 6 {
        return "FAIL:syntax".into();
    }
    let (api, variant, ctor, bind, spec, peers) = (p[0], p[1], p[2], p[3], p[4], p[5]);
    let bind_ip: IpAddr = match bind.parse() {
        Ok(x) => x,
        Err(_) => return "FAIL:bind_ip".into(),
    };
    let started = match api {
        "rust" => match parse_filter(spec) {
            Ok(f) => start_rust(env, variant, ctor, bind_ip, f),
            Err(e) => Err(e),
        },
        "ffi" => start_ffi(env, variant, bind_ip, spec),
        _ => Err("api".into()),
    };
    let (server, port) = match started {
        Ok(x) => x,
        Err(e) => return format!("FAIL:{e}"),
    };
    let tls = variant != "tcp";
    let mut out = Vec::new();
    let mut server = server;
    for peer in peers.split(',') {
        if peer == "@D" {
            let ok = match &mut server {
                Server::Rust(h) => env.rt.block_on(h.set_decode_level(DecodeLevel::nothing())).is_ok(),
                Server::Ffi(s, _) => unsafe { ffi::rodbus_server_set_decode_level(*s, decode_nothing()) == 0 },
            };
            std::thread::sleep(Duration::from_millis(30));
            out.push(if ok { "D".to_string() } else { "E:set_decode_level".to_string() });
            continue;
        }
        let src: IpAddr = match peer.parse() {
            Ok(x) => x,
            Err(_) => {
                out.push("E:peer".to_string());
                continue;
            }
        };
        // destination: the bind address, or loopback of the peer's family when bound to a wildcard address
        let dst_ip: IpAddr = if bind_ip.is_unspecified() {
            match src {
                IpAddr::V4(_) => "127.0.0.1".parse().unwrap(),
                IpAddr::V6(_) => "::1".parse().unwrap(),
            }
        } else {
            bind_ip
        };
        let r = env.rt.block_on(probe(src, SocketAddr::new(dst_ip, port), tls, Duration::from_millis(2500)));
        out.push(r.code());
    }
    match server {
        Server::Rust(h) => drop(h),
        Server::Ffi(s, f) => unsafe {
            ffi::rodbus_server_destroy(s);
            ffi::rodbus_address_filter_destroy(f);
        },
    }
    out.join(",")
}

pub fn main(args: &[String]) -> i32 {
    crate::util::quiet_panics();
    let repo = args.first().cloned().unwrap_or_else(|| "/repo".to_string());
    let env = Arc::new(Env {
        rt: tokio::runtime::Builder::new_multi_thread().worker_threads(6).enable_all().build().unwrap(),
        ffi_rt: ffi_runtime(4),
        paths: tls_paths(&repo),
        repo,
    });
    let lines: Arc<Vec<String>> = Arc::new(crate::util::stdin_lines().collect());
    let results: Arc<Mutex<Vec<String>>> = Arc::new(Mutex::new(vec![String::new(); lines.len()]));
    let next = Arc::new(AtomicUsize::new(0));
    let mut workers = Vec::new();
    for _ in 0..12 {
        let (env, lines, results, next) = (env.clone(), lines.clone(), results.clone(), next.clone());
        workers.push(std::thread::spawn(move || loop {
            let i = next.fetch_add(1, Ordering::SeqCst);
            if i >= lines.len() {
                break;
            }
            let line = lines[i].clone();
            let env2 = env.clone();
            let r = std::panic::catch_unwind(std::panic::AssertUnwindSafe(move || scenario(&env2, &line)));
            results.lock().unwrap()[i] = r.unwrap_or_else(|_| "PANIC".to_string());
        }));
    }
    for w in workers {
        let _ = w.join();
    }
    for r in results.lock().unwrap().iter() {
        println!("{r}");
    }
    0
}

unsafe impl Send for Env {}
unsafe impl Sync for Env {}
