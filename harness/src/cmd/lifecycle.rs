//! C13 (black box, no hook): the real `spawn_tcp_client_task_with_options` over loopback TCP with a
//! recording, gating `Listener<ClientState>`.  Real time; assertions are on ORDER only.
//!
//! input line:  cap=<n> mt=<n|0> rmin=<ms> rmax=<ms> [chain=<builder calls>] | <step> ...
//!   chain=<c,c,..>                            build the ClientOptions by these public builder calls in this order instead
//!                                             of from cap / mt (syntax: clientoptions.rs; C12 options family)
//!   env:<refuse|close|garbage|silent|serve>   how the peer treats connections from now on
//!                                             (refuse = nothing listens on the port)
//!   E D X L                                   Channel::enable / disable / shutdown / set_decode_level
//!   H                                         drop the (only) handle
//!   S:<id>:<timeout_ms>                       read_holding_registers in a spawned task (completion class is logged)
//!   hold:<n>                                  the n-th listener notification (1-based) blocks the task until `go`
//!   go                                        release the held notification
//!   wait:<n>                                  wait until n listener notifications have been made
//!   waitc:<n>                                 wait until n requests have completed
//!   done                                      wait until the channel task has ended (every handle then reports shutdown)
//!   sleep:<ms>                                let real time pass (only used for "nothing more happens" checks)
//! output line: <listener log>|<completions c<id>:<class> sorted>|<done|live>|<accepts>|<TIMEOUT at step k, if a wait did not finish>|<ms between consecutive notifications>|<peer view>
//!   peer view: for every notification the task was HELD at (the callback is the gate): p<n>:<open>:<mode> - how many of the
//!   connections the peer accepted it still sees open (no EOF / error read yet) while the task sits in that callback, sampled after
//!   giving the peer up to 100 ms to notice a close (for Connected: to accept), and the mode of the last accepted connection
use std::collections::HashMap;
use std::net::SocketAddr;
use std::sync::{Arc, Mutex};
use std::time::Duration;

use rodbus::client::{Channel, ClientState, HostAddr, Listener, RequestParam};
use rodbus::{AddressRange, ClientOptions, DecodeLevel, MaybeAsync, RequestError, UnitId};
use tokio::io::{AsyncReadExt, AsyncWriteExt};

#[derive(Default)]
struct Shared {
    listener: Vec<String>,
    /// when each notification was made
    stamps: Vec<std::time::Instant>,
    completions: Vec<(u32, String)>,
    accepts: usize,
    hold_at: Option<usize>,
    mode: String,
    /// the notification (1-based) the task is held at right now
    holding: Option<usize>,
    /// connections the peer accepted and has not seen closed yet
    peer_open: usize,
    last_mode: String,
    peer_view: Vec<String>,
}

type Ctl = Arc<Mutex<Shared>>;

struct Gate {
    ctl: Ctl,
    release: Arc<tokio::sync::Notify>,
}

fn name(s: ClientState) -> String {
    match s {
        ClientState::Disabled => "lD".into(),
        ClientState::Connecting => "lC".into(),
        ClientState::Connected => "lN".into(),
        ClientState::WaitAfterFailedConnect(d) => format!("lF{}", d.as_nanos()),
        ClientState::WaitAfterDisconnect(d) => format!("lW{}", d.as_nanos()),
        ClientState::Shutdown => "lS".into(),
    }
}

impl Listener<ClientState> for Gate {
    fn update(&mut self, value: ClientState) -> MaybeAsync<()> {
        let hold = {
            let mut c = self.ctl.lock().unwrap();
            c.listener.push(name(value));
            c.stamps.push(std::time::Instant::now());
            if c.hold_at == Some(c.listener.len()) {
                c.hold_at = None;
                c.holding = Some(c.listener.len());
                true
            } else {
                false
            }
        };
        if hold {
            let n = self.release.clone();
            MaybeAsync::asynchronous(async move { n.notified().await })
        } else {
            MaybeAsync::ready(())
        }
    }
}

fn class<T>(r: &Result<T, RequestError>) -> &'static str {
    match r {
        Ok(_) => "Ok",
        Err(RequestError::Io(_)) => "Io",
        Err(RequestError::Exception(_)) => "Exception",
        Err(RequestError::BadRequest(_)) => "BadRequest",
        Err(RequestError::BadFrame(_)) => "BadFrame",
        Err(RequestError::BadResponse(_)) => "BadResponse",
        Err(RequestError::Internal(_)) => "Internal",
        Err(RequestError::ResponseTimeout) => "Timeout",
        Err(RequestError::NoConnection) => "NoConnection",
        Err(RequestError::Shutdown) => "Shutdown",
    }
}

/// the peer: accepts while a listener is bound and treats each connection by the mode in force at accept time
async fn peer(listener: tokio::net::TcpListener, ctl: Ctl) {
    loop {
        let (mut sock, _) = match listener.accept().await {
            Ok(x) => x,
            Err(_) => return,
        };
        let mode = {
            let mut c = ctl.lock().unwrap();
            c.accepts += 1;
            c.peer_open += 1;
            c.last_mode = c.mode.clone();
            c.mode.clone()
        };
        let ctl2 = ctl.clone();
        tokio::spawn(async move {
            // whatever the mode: when this block is left the peer has seen the connection end (EOF / error) or ended it itself
            struct Closed(Ctl);
            impl Drop for Closed {
                fn drop(&mut self) {
                    let mut c = self.0.lock().unwrap();
                    c.peer_open = c.peer_open.saturating_sub(1);
                }
            }
            let _closed = Closed(ctl2);
            match mode.as_str() {
                "close" => drop(sock),
                "garbage" => {
                    let _ = sock.write_all(&[0x00, 0x00, 0x00, 0x05, 0x00, 0x03, 0x01, 0x83, 0x02]).await;
                    let mut buf = [0u8; 64];
                    while let Ok(n) = sock.read(&mut buf).await {
                        if n == 0 {
                            break;
                        }
                    }
                }
                "silent" => {
                    let mut buf = [0u8; 64];
                    while let Ok(n) = sock.read(&mut buf).await {
                        if n == 0 {
                            break;
                        }
                    }
                }
                _ => {
                    // serve: one 12-byte read-holding-registers request at a time
                    let mut req = [0u8; 12];
                    while sock.read_exact(&mut req).await.is_ok() {
                        let reply = [req[0], req[1], 0, 0, 0, 5, req[6], 0x03, 0x02, 0xAB, 0xCD];
                        if sock.write_all(&reply).await.is_err() {
                            break;
                        }
                    }
                }
            }
        });
    }
}

async fn wait_until<F: Fn(&Shared) -> bool>(ctl: &Ctl, f: F) -> bool {
    for _ in 0..6000 {
        if f(&ctl.lock().unwrap()) {
            return true;
        }
        tokio::time::sleep(Duration::from_millis(2)).await;
    }
    false
}

async fn run_case(line: &str, case_no: usize) -> String {
    let (cfg, script) = line.split_once('|').expect("case needs a '|'");
    let mut kv: HashMap<&str, u64> = HashMap::new();
    let mut chain: Option<&str> = None;
    for t in cfg.split_whitespace() {
        let (k, v) = t.split_once('=').expect("k=v");
        if k == "chain" {
            chain = Some(v); // the options are built by these public builder calls, in this order (see clientoptions.rs)
            continue;
        }
        kv.insert(k, v.parse().expect("number"));
    }
    let ctl: Ctl = Arc::new(Mutex::new(Shared::default()));
    ctl.lock().unwrap().mode = "refuse".into();
    // a port of our own, OUTSIDE the ephemeral range (so that nobody else - other shards of this check, other checks'
    // `bind(0)` sockets, outgoing connections - can own it while the script wants connects to be refused): one block
    // of 20 ports per process, probed once; nothing listens until the script says so
    let mut addr: SocketAddr = "127.0.0.1:1".parse().unwrap();
    for k in 0..20u32 {
        let port = 10000 + (std::process::id() % 1000) * 20 + ((case_no as u32 + k) % 20);
        let cand: SocketAddr = format!("127.0.0.1:{port}").parse().unwrap();
        if let Ok(probe) = std::net::TcpListener::bind(cand) {
            drop(probe);
            addr = cand;
            break;
        }
    }
    let release = Arc::new(tokio::sync::Notify::new());
    let options = match chain {
        Some(c) => super::clientoptions::build(c),
        None => ClientOptions::default()
            .decode_level(DecodeLevel::nothing())
            .max_queued_requests(kv["cap"] as usize)
            .max_response_timeouts(std::num::NonZeroUsize::new(kv["mt"] as usize)),
    };
    let retry = rodbus::doubling_retry_strategy(Duration::from_millis(kv["rmin"]), Duration::from_millis(kv["rmax"]));
    let (channel, task) = rodbus::client::create_tcp_client_task_with_options(
        HostAddr::ip(addr.ip(), addr.port()),
        retry,
        Some(Box::new(Gate {
            ctl: ctl.clone(),
            release: release.clone(),
        })),
        options,
    );
    let jh = tokio::spawn(task.run());
    let mut channel: Option<Channel> = Some(channel);
    let mut peer_task: Option<tokio::task::JoinHandle<()>> = None;
    let mut failed: Option<String> = None;

    for (k, step) in script.split_whitespace().enumerate() {
        let p: Vec<&str> = step.split(':').collect();
        let ok = match p[0] {
            "env" => {
                ctl.lock().unwrap().mode = p[1].to_string();
                if p[1] == "refuse" {
                    if let Some(t) = peer_task.take() {
                        t.abort();
                        let _ = t.await;
                    }
                } else if peer_task.is_none() {
                    let sock = tokio::net::TcpSocket::new_v4().unwrap();
                    sock.set_reuseaddr(true).unwrap();
                    sock.bind(addr).unwrap();
                    let l = sock.listen(16).unwrap();
                    peer_task = Some(tokio::spawn(peer(l, ctl.clone())));
                }
                true
            }
            "E" | "D" | "X" | "L" => {
                if let Some(ch) = channel.as_ref() {
                    let _ = match p[0] {
                        "E" => ch.enable().await,
                        "D" => ch.disable().await,
                        "L" => ch.set_decode_level(DecodeLevel::nothing()).await,
                        _ => ch.shutdown().await,
                    };
                }
                true
            }
            "H" => {
                channel = None;
                true
            }
            "S" => {
                if let Some(ch) = channel.clone() {
                    let id: u32 = p[1].parse().unwrap();
                    let param = RequestParam::new(UnitId::new(1), Duration::from_millis(p[2].parse().unwrap()));
                    let ctl2 = ctl.clone();
                    tokio::spawn(async move {
                        let r = ch.read_holding_registers(param, AddressRange::try_from(id as u16, 1).unwrap()).await;
                        ctl2.lock().unwrap().completions.push((id, class(&r).to_string()));
                    });
                    // let the spawned call reach the queue before the script goes on (keeps the script order)
                    for _ in 0..4 {
                        tokio::task::yield_now().await;
                    }
                }
                true
            }
            "hold" => {
                ctl.lock().unwrap().hold_at = Some(p[1].parse().unwrap());
                true
            }
            "go" => {
                ctl.lock().unwrap().holding = None;
                release.notify_one();
                true
            }
            "wait" => {
                let n: usize = p[1].parse().unwrap();
                let ok = wait_until(&ctl, |c| c.listener.len() >= n).await;
                // the task sits in the callback of notification n: what does the peer see?
                let held = ctl.lock().unwrap().holding;
                if ok && held == Some(n) && !ctl.lock().unwrap().peer_view.iter().any(|x| x.starts_with(&format!("p{n}:"))) {
                    let connected = ctl.lock().unwrap().listener[n - 1] == "lN";
                    for _ in 0..100 {
                        let open = ctl.lock().unwrap().peer_open;
                        if (connected && open >= 1) || (!connected && open == 0) {
                            break;
                        }
                        tokio::time::sleep(Duration::from_millis(1)).await;
                    }
                    let mut c = ctl.lock().unwrap();
                    let v = format!("p{n}:{}:{}", c.peer_open, if c.last_mode.is_empty() { "-" } else { c.last_mode.as_str() });
                    c.peer_view.push(v);
                }
                ok
            }
            "waitc" => {
                let n: usize = p[1].parse().unwrap();
                wait_until(&ctl, |c| c.completions.len() >= n).await
            }
            "done" => {
                let mut fin = false;
                for _ in 0..6000 {
                    if jh.is_finished() {
                        fin = true;
                        break;
                    }
                    tokio::time::sleep(Duration::from_millis(2)).await;
                }
                fin
            }
            "sleep" => {
                tokio::time::sleep(Duration::from_millis(p[1].parse().unwrap())).await;
                true
            }
            other => panic!("unknown step {other:?}"),
        };
        if !ok {
            failed = Some(format!("TIMEOUT at step {k} ({step})"));
            break;
        }
    }
    let done = jh.is_finished();
    // after the task is gone every handle reports shutdown
    let mut after = String::new();
    if done {
        if let Some(ch) = channel.as_ref() {
            let r = ch
                .read_holding_registers(RequestParam::new(UnitId::new(1), Duration::from_millis(10)), AddressRange::try_from(0, 1).unwrap())
                .await;
            after = format!(" after:{}", class(&r));
        }
    }
    jh.abort();
    if let Some(t) = peer_task.take() {
        t.abort();
    }
    let c = ctl.lock().unwrap();
    let mut comps = c.completions.clone();
    comps.sort();
    // milliseconds between consecutive notifications (for lower bounds on announced delays only)
    let gaps: Vec<String> = c.stamps.windows(2).map(|w| (w[1] - w[0]).as_millis().to_string()).collect();
    format!(
        "{}|{}|{}{}|{}|{}|{}|{}",
        c.listener.join(" "),
        comps.iter().map(|(i, s)| format!("c{i}:{s}")).collect::<Vec<_>>().join(" "),
        if done { "done" } else { "live" },
        after,
        c.accepts,
        failed.unwrap_or_default(),
        gaps.join(" "),
        c.peer_view.join(" ")
    )
}

pub fn main(_args: &[String]) -> i32 {
    crate::util::quiet_panics();
    for (case_no, line) in crate::util::stdin_lines().enumerate() {
        let res = std::panic::catch_unwind(move || {
            let rt = tokio::runtime::Builder::new_current_thread().enable_all().build().unwrap();
            let out = rt.block_on(run_case(&line, case_no));
            drop(rt);
            out
        });
        match res {
            Ok(s) => println!("{s}"),
            Err(_) => println!("PANIC"),
        }
    }
    0
}
