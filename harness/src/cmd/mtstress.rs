//! C10 under REAL concurrency: the real `create_tcp_client_task_with_options` task on a multi-thread
//! runtime (4 workers) against a scripted loopback peer, k submitter tasks (Channel futures,
//! CallbackSession callbacks and FfiChannel try_send mixed) firing n requests each while other tasks
//! concurrently enable / disable the channel and the run ends by shutdown / dropping every handle /
//! aborting the task / shutting the task's runtime down in the background (submitters then live on a
//! second runtime).  No model of the interleaving: the output is what the interleaving-independent
//! Spec clauses need - how often every submitted request completed, with which error class, the
//! listener trace, whether the task ended.
//!
//! input line:  seed=<u64> mode=<shutdown|drop|abort|rtshutdown|late> k=<submitters> n=<requests each> cap=<queue> mt=<max timeouts|0>
//! output line: submitted=<S> once=<..> zero=<ids..|-> multi=<ids..|-> classes=<class:count,..>|<listener trace>|task=<ended|running>|<mode>
#![allow(deprecated)]
use std::collections::HashMap;
use std::net::SocketAddr;
use std::sync::atomic::{AtomicBool, AtomicU32, AtomicUsize, Ordering};
use std::sync::{Arc, Mutex};
use std::time::Duration;

use rodbus::client::{CallbackSession, Channel, ClientState, FfiChannel, HostAddr, Listener, RequestParam};
use rodbus::{AddressRange, ClientOptions, DecodeLevel, MaybeAsync, RequestError, UnitId};
use tokio::io::{AsyncReadExt, AsyncWriteExt};

struct Rng(u64);
impl Rng {
    fn next(&mut self) -> u64 {
        self.0 ^= self.0 << 13;
        self.0 ^= self.0 >> 7;
        self.0 ^= self.0 << 17;
        self.0
    }
    fn below(&mut self, n: u64) -> u64 {
        self.next() % n.max(1)
    }
}

struct Stats {
    counts: Vec<AtomicU32>,
    submitted: Vec<AtomicBool>,
    classes: Mutex<HashMap<&'static str, usize>>,
    listener: Mutex<Vec<String>>,
    accepts: AtomicUsize,
}

fn class<T>(r: &Result<T, RequestError>) -> &'static str {
    match r {
        Ok(_) => "Ok",
        Err(RequestError::Io(_)) => "Io",
        Err(RequestError::Exception(_)) => "Exception",
        Err(RequestError::BadRequest(_)) => "BadRequest",
        Err(RequestError::BadFrame(_)) => "BadFrame",
        Err(RequestError::BadResponse(_)) => "BadResponse",
        Err(RequestError::Internal(_)) => "Internal",
        Err(RequestError::ResponseTimeout) => "Timeout",
        Err(RequestError::NoConnection) => "NoConnection",
        Err(RequestError::Shutdown) => "Shutdown",
    }
}

fn record(st: &Stats, id: usize, c: &'static str) {
    st.counts[id].fetch_add(1, Ordering::SeqCst);
    *st.classes.lock().unwrap().entry(c).or_insert(0) += 1;
}

struct Recorder(Arc<Stats>);
impl Listener<ClientState> for Recorder {
    fn update(&mut self, s: ClientState) -> MaybeAsync<()> {
        let name = match s {
            ClientState::Disabled => "lD".to_string(),
            ClientState::Connecting => "lC".to_string(),
            ClientState::Connected => "lN".to_string(),
            ClientState::WaitAfterFailedConnect(d) => format!("lF{}", d.as_nanos()),
            ClientState::WaitAfterDisconnect(d) => format!("lW{}", d.as_nanos()),
            ClientState::Shutdown => "lS".to_string(),
        };
        self.0.listener.lock().unwrap().push(name);
        MaybeAsync::ready(())
    }
}

/// the peer: per connection one of serve / stall / close after a few requests / garbage after a few requests
async fn peer(listener: tokio::net::TcpListener, st: Arc<Stats>, seed: u64) {
    let mut rng = Rng(seed ^ 0x9E3779B97F4A7C15);
    loop {
        let (mut sock, _) = match listener.accept().await {
            Ok(x) => x,
            Err(_) => return,
        };
        st.accepts.fetch_add(1, Ordering::SeqCst);
        let mode = rng.below(6);
        let limit = 1 + rng.below(6);
        tokio::spawn(async move {
            let mut served = 0;
            let mut req = [0u8; 12];
            loop {
                if mode == 1 {
                    // stall: read and never answer
                    let mut buf = [0u8; 64];
                    match sock.read(&mut buf).await {
                        Ok(0) | Err(_) => return,
                        _ => continue,
                    }
                }
                if sock.read_exact(&mut req).await.is_err() {
                    return;
                }
                served += 1;
                if mode == 2 && served >= limit {
                    return; // close
                }
                if mode == 3 && served >= limit {
                    let _ = sock.write_all(&[0, 0, 0, 9, 0, 3, 1, 3, 0]).await; // protocol id 9
                    continue;
                }
                let reply = [req[0], req[1], 0, 0, 0, 5, req[6], 0x03, 0x02, 0xAB, 0xCD];
                if sock.write_all(&reply).await.is_err() {
                    return;
                }
            }
        });
    }
}

async fn submitter(ch: Channel, st: Arc<Stats>, first: usize, n: usize, seed: u64, stop: Arc<AtomicBool>) {
    let mut rng = Rng(seed);
    for j in 0..n {
        if stop.load(Ordering::SeqCst) {
            return; // the handles are being dropped
        }
        let id = first + j;
        let param = RequestParam::new(UnitId::new(1), Duration::from_millis(5 + rng.below(25)));
        let range = AddressRange::try_from((id % 60000) as u16, 1).unwrap();
        st.submitted[id].store(true, Ordering::SeqCst);
        match rng.below(3) {
            0 => {
                // a future that never resolves is a lost request: bounded wait, nothing recorded
                if let Ok(r) = tokio::time::timeout(Duration::from_secs(12), ch.read_holding_registers(param, range)).await {
                    record(&st, id, class(&r));
                }
            }
            1 => {
                #[allow(deprecated)]
                let mut cs = CallbackSession::new(ch.clone(), param);
                let st2 = st.clone();
                #[allow(deprecated)]
                let _ = tokio::time::timeout(Duration::from_secs(12), cs.read_holding_registers(range, move |r| record(&st2, id, class(&r)))).await;
            }
            _ => {
                let st2 = st.clone();
                let _ = FfiChannel::new(ch.clone()).read_holding_registers(param, range, move |r| record(&st2, id, class(&r)));
            }
        }
        match rng.below(4) {
            0 => tokio::task::yield_now().await,
            1 => tokio::time::sleep(Duration::from_micros(rng.below(400))).await,
            _ => {}
        }
    }
}

/// p5's observation, distilled: OS threads hammer FfiChannel::try_send (permit acquisition and push are two steps inside
/// tokio's mpsc) while the task - never enabled, so it drains the queue failing every request with NoConnection - is
/// killed (abort / runtime shutdown / shutdown command / last... no: handles stay alive, that is the point: a command that
/// is pushed after the dropped receiver has drained the queue stays in the channel as long as a handle exists)
fn hammer_case(seed: u64, threads: usize, cap: usize, kill: &str) -> String {
    let limit = 400_000usize;
    let st = Arc::new(Stats {
        counts: (0..limit).map(|_| AtomicU32::new(0)).collect(),
        submitted: (0..limit).map(|_| AtomicBool::new(false)).collect(),
        classes: Mutex::new(HashMap::new()),
        listener: Mutex::new(Vec::new()),
        accepts: AtomicUsize::new(0),
    });
    let rt_task = tokio::runtime::Builder::new_multi_thread().worker_threads(2).enable_all().build().unwrap();
    let addr: SocketAddr = "127.0.0.1:9".parse().unwrap();
    let (channel, jh) = {
        let _g = rt_task.enter();
        let (channel, task) = rodbus::client::create_tcp_client_task_with_options(
            HostAddr::ip(addr.ip(), addr.port()),
            rodbus::doubling_retry_strategy(Duration::from_millis(50), Duration::from_millis(50)),
            Some(Box::new(Recorder(st.clone()))),
            ClientOptions::default().decode_level(DecodeLevel::nothing()).max_queued_requests(cap),
        );
        (channel, rt_task.spawn(task.run()))
    };
    let next = Arc::new(AtomicUsize::new(0));
    let stop = Arc::new(AtomicBool::new(false));
    let mut hs = Vec::new();
    for _ in 0..threads {
        let (ch, st, next, stop) = (channel.clone(), st.clone(), next.clone(), stop.clone());
        hs.push(std::thread::spawn(move || {
            let mut f = FfiChannel::new(ch);
            let param = RequestParam::new(UnitId::new(1), Duration::from_millis(10));
            let range = AddressRange::try_from(0, 1).unwrap();
            while !stop.load(Ordering::Relaxed) {
                let id = next.fetch_add(1, Ordering::Relaxed);
                if id >= limit {
                    return;
                }
                st.submitted[id].store(true, Ordering::SeqCst);
                let st2 = st.clone();
                let _ = f.read_holding_registers(param, range, move |r| record(&st2, id, class(&r)));
            }
        }));
    }
    let mut rng = Rng(seed | 1);
    std::thread::sleep(Duration::from_micros(200 + rng.below(3000)));
    match kill {
        "abort" => jh.abort(),
        "command" => {
            let _ = rt_task.block_on(channel.shutdown());
        }
        _ => {}
    }
    if kill == "runtime" {
        rt_task.shutdown_background();
    } else {
        std::thread::sleep(Duration::from_micros(300));
        rt_task.shutdown_background();
    }
    std::thread::sleep(Duration::from_micros(500 + rng.below(1000)));
    stop.store(true, Ordering::SeqCst);
    for h in hs {
        let _ = h.join();
    }
    let total = next.load(Ordering::SeqCst).min(limit);
    // the handle `channel` is still alive: whatever is stuck in the queue now stays there
    let mut pending = 0;
    for _ in 0..1500 {
        pending = (0..total).filter(|i| st.submitted[*i].load(Ordering::SeqCst) && st.counts[*i].load(Ordering::SeqCst) == 0).count();
        if pending == 0 {
            break;
        }
        std::thread::sleep(Duration::from_millis(2));
    }
    let multi = (0..total).filter(|i| st.counts[*i].load(Ordering::SeqCst) > 1).count();
    let first_pending: Vec<String> = (0..total).filter(|i| st.submitted[*i].load(Ordering::SeqCst) && st.counts[*i].load(Ordering::SeqCst) == 0).take(5).map(|i| i.to_string()).collect();
    // does dropping the last handle release them?
    drop(channel);
    std::thread::sleep(Duration::from_millis(20));
    let after_drop = (0..total).filter(|i| st.submitted[*i].load(Ordering::SeqCst) && st.counts[*i].load(Ordering::SeqCst) == 0).count();
    let mut classes: Vec<String> = st.classes.lock().unwrap().iter().map(|(k, v)| format!("{k}:{v}")).collect();
    classes.sort();
    format!(
        "submitted={} once={} zero={} multi={} classes={} pending_after_3s={} pending_after_handle_drop={}|{}|task=ended|hammer-{}",
        total,
        total - pending - multi,
        if first_pending.is_empty() { "-".to_string() } else { first_pending.join(",") },
        if multi == 0 { "-".to_string() } else { multi.to_string() },
        classes.join(","),
        pending,
        after_drop,
        st.listener.lock().unwrap().join(" "),
        kill
    )
}

fn run_case(line: &str, case_no: usize) -> String {
    let mut kv: HashMap<&str, &str> = HashMap::new();
    for t in line.split_whitespace() {
        let (k, v) = t.split_once('=').expect("k=v");
        kv.insert(k, v);
    }
    let seed: u64 = kv["seed"].parse().unwrap();
    let mode = kv["mode"].to_string();
    let k: usize = kv["k"].parse().unwrap();
    if let Some(kill) = mode.strip_prefix("hammer-") {
        return hammer_case(seed, k, kv["cap"].parse().unwrap(), kill);
    }
    let n: usize = kv["n"].parse().unwrap();
    let cap: usize = kv["cap"].parse().unwrap();
    let mt: usize = kv["mt"].parse().unwrap();
    let total = k * n;
    let st = Arc::new(Stats {
        counts: (0..total).map(|_| AtomicU32::new(0)).collect(),
        submitted: (0..total).map(|_| AtomicBool::new(false)).collect(),
        classes: Mutex::new(HashMap::new()),
        listener: Mutex::new(Vec::new()),
        accepts: AtomicUsize::new(0),
    });

    // the task's runtime, and a second one for the peer, the submitters and the controllers
    let rt_task = tokio::runtime::Builder::new_multi_thread().worker_threads(4).enable_all().build().unwrap();
    let rt_env = tokio::runtime::Builder::new_multi_thread().worker_threads(3).enable_all().build().unwrap();
    let separate = mode == "rtshutdown";

    let port = 31000 + (std::process::id() % 500) * 3 + (case_no as u32 % 3);
    let addr: SocketAddr = format!("127.0.0.1:{port}").parse().unwrap();
    let mut rng = Rng(seed | 1);

    // the client task
    let options = ClientOptions::default()
        .decode_level(DecodeLevel::nothing())
        .max_queued_requests(cap)
        .max_response_timeouts(std::num::NonZeroUsize::new(mt));
    let (channel, jh) = {
        let _g = rt_task.enter();
        let (channel, task) = rodbus::client::create_tcp_client_task_with_options(
            HostAddr::ip(addr.ip(), addr.port()),
            rodbus::doubling_retry_strategy(Duration::from_millis(2), Duration::from_millis(8)),
            Some(Box::new(Recorder(st.clone()))),
            options,
        );
        (channel, rt_task.spawn(task.run()))
    };
    let rt_task = Arc::new(Mutex::new(Some(rt_task)));

    let stop = Arc::new(AtomicBool::new(false));
    let st2 = st.clone();
    let end_delay = Duration::from_micros(500 + rng.below(25_000));
    let rt_task2 = rt_task.clone();
    let mode2 = mode.clone();
    let listen_from_start = rng.below(4) != 0;
    let peer_delay = Duration::from_millis(rng.below(12));
    let seeds: Vec<u64> = (0..k + 2).map(|_| rng.next()).collect();

    let driver = async move {
        let st = st2;
        // the peer (sometimes late, so that connects are refused first)
        let stp = st.clone();
        let peer_seed = seeds[k];
        tokio::spawn(async move {
            if !listen_from_start {
                tokio::time::sleep(peer_delay).await;
            }
            let sock = tokio::net::TcpSocket::new_v4().unwrap();
            sock.set_reuseaddr(true).unwrap();
            if sock.bind(addr).is_ok() {
                if let Ok(l) = sock.listen(64) {
                    peer(l, stp, peer_seed).await;
                }
            }
        });
        // submitters: on the task's runtime, or on this one when the task's runtime is going to be shut down
        let mut subs = Vec::new();
        for i in 0..k {
            let fut = submitter(channel.clone(), st.clone(), i * n, n, seeds[i], stop.clone());
            let h = if separate {
                tokio::spawn(fut)
            } else {
                let g = rt_task2.lock().unwrap();
                g.as_ref().unwrap().spawn(fut)
            };
            subs.push(h);
        }
        // enable / disable toggling
        let tog_ch = channel.clone();
        let tog_stop = stop.clone();
        let mut trng = Rng(seeds[k + 1]);
        let toggler = tokio::spawn(async move {
            let _ = tog_ch.enable().await;
            while !tog_stop.load(Ordering::SeqCst) {
                tokio::time::sleep(Duration::from_micros(300 + trng.below(4000))).await;
                let r = if trng.below(4) == 0 { tog_ch.disable().await } else { tog_ch.enable().await };
                if r.is_err() {
                    return;
                }
            }
        });
        // how the run ends
        let mut channel = Some(channel);
        match mode2.as_str() {
            "shutdown" => {
                tokio::time::sleep(end_delay).await;
                let _ = channel.as_ref().unwrap().shutdown().await;
            }
            "abort" => {
                tokio::time::sleep(end_delay).await;
                jh.abort();
            }
            "rtshutdown" => {
                tokio::time::sleep(end_delay).await;
                if let Some(rt) = rt_task2.lock().unwrap().take() {
                    rt.shutdown_background();
                }
            }
            _ => {}
        }
        // let the submitters finish (requests issued after the task is gone complete with Shutdown at once)
        if mode2 == "drop" {
            tokio::time::sleep(end_delay).await;
            stop.store(true, Ordering::SeqCst);
        }
        for h in subs {
            let _ = tokio::time::timeout(Duration::from_secs(30), h).await;
        }
        stop.store(true, Ordering::SeqCst);
        let _ = tokio::time::timeout(Duration::from_secs(5), toggler).await;
        match mode2.as_str() {
            "late" => {
                let _ = channel.as_ref().unwrap().shutdown().await;
            }
            "drop" => {
                channel = None;
            }
            _ => {}
        }
        // the task must end (except when its future was simply dropped with its runtime: then there is nothing to wait for)
        let mut ended = mode2 == "rtshutdown";
        if !ended {
            for _ in 0..2500 {
                if jh.is_finished() {
                    ended = true;
                    break;
                }
                tokio::time::sleep(Duration::from_millis(2)).await;
            }
        }
        // every submitted request must have completed by now; give stragglers 10 s
        for _ in 0..5000 {
            let pending = (0..total).any(|i| st.submitted[i].load(Ordering::SeqCst) && st.counts[i].load(Ordering::SeqCst) == 0);
            if !pending {
                break;
            }
            tokio::time::sleep(Duration::from_millis(2)).await;
        }
        drop(channel);
        ended
    };
    let ended = rt_env.block_on(driver);
    rt_env.shutdown_background();
    if let Some(rt) = rt_task.lock().unwrap().take() {
        rt.shutdown_background();
    }

    let submitted: Vec<usize> = (0..total).filter(|i| st.submitted[*i].load(Ordering::SeqCst)).collect();
    let zero: Vec<String> = submitted.iter().filter(|i| st.counts[**i].load(Ordering::SeqCst) == 0).map(|i| i.to_string()).collect();
    let multi: Vec<String> = (0..total).filter(|i| st.counts[*i].load(Ordering::SeqCst) > 1).map(|i| i.to_string()).collect();
    let once = submitted.iter().filter(|i| st.counts[**i].load(Ordering::SeqCst) == 1).count();
    let mut classes: Vec<String> = st.classes.lock().unwrap().iter().map(|(k, v)| format!("{k}:{v}")).collect();
    classes.sort();
    let dash = |v: &Vec<String>| if v.is_empty() { "-".to_string() } else { v.iter().take(8).cloned().collect::<Vec<_>>().join(",") };
    format!(
        "submitted={} once={} zero={} multi={} classes={} accepts={}|{}|task={}|{}",
        submitted.len(),
        once,
        dash(&zero),
        dash(&multi),
        classes.join(","),
        st.accepts.load(Ordering::SeqCst),
        st.listener.lock().unwrap().join(" "),
        if ended { "ended" } else { "running" },
        mode
    )
}

pub fn main(_args: &[String]) -> i32 {
    crate::util::quiet_panics();
    for (case_no, line) in crate::util::stdin_lines().enumerate() {
        let res = std::panic::catch_unwind(move || run_case(&line, case_no));
        match res {
            Ok(s) => println!("{s}"),
            Err(_) => println!("PANIC"),
        }
    }
    0
}
