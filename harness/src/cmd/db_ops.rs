//! C19: operation sequences on the C-ABI point database, through the extern "C" functions, interleaved
//! with client reads over loopback.
//! input line: space separated groups
//!   I:<ops>   ops executed inside the configure callback of rodbus_device_map_add_endpoint (at most one, first)
//!   T:<ops>   ops executed inside one rodbus_server_update_database transaction callback
//!   R:<t><start>,<count>   a client read request (Rust API client over TCP loopback)
//!   ops = ';' separated:  a<t><i>=<v> add | u<t><i>=<v> update | d<t><i> delete | g<t><i> get
//!   t = c coil | d discrete input | h holding register | i input register
//! output line: one result per op / read, ';' separated, in the model's format:
//!   T / F for add, update, delete;  b0 / b1 / r<n> / - (InvalidIndex) for get;  [v,v,..] or E<code> for a read
use super::p5_common::*;
use rodbus::client::*;
use rodbus::*;
use std::net::IpAddr;
use std::os::raw::c_void;
use std::sync::atomic::{AtomicUsize, Ordering};
use std::sync::{Arc, Mutex};
use std::time::Duration;

#[derive(Default)]
struct Batch {
    ops: Vec<String>,
    results: Vec<String>,
}

unsafe fn exec_op(db: *mut rodbus_ffi::Database, op: &str) -> String {
    let kind = op.as_bytes()[0] as char;
    let t = op.as_bytes()[1] as char;
    let rest = &op[2..];
    let (idx, val) = match rest.split_once('=') {
        Some((i, v)) => (i.parse::<u16>().unwrap(), v.parse::<u16>().unwrap()),
        None => (rest.parse::<u16>().unwrap(), 0),
    };
    let b = |x: bool| if x { "T".to_string() } else { "F".to_string() };
    match (kind, t) {
        ('a', 'c') => b(ffi::rodbus_database_add_coil(db, idx, val != 0)),
        ('a', 'd') => b(ffi::rodbus_database_add_discrete_input(db, idx, val != 0)),
        ('a', 'h') => b(ffi::rodbus_database_add_holding_register(db, idx, val)),
        ('a', 'i') => b(ffi::rodbus_database_add_input_register(db, idx, val)),
        ('u', 'c') => b(ffi::rodbus_database_update_coil(db, idx, val != 0)),
        ('u', 'd') => b(ffi::rodbus_database_update_discrete_input(db, idx, val != 0)),
        ('u', 'h') => b(ffi::rodbus_database_update_holding_register(db, idx, val)),
        ('u', 'i') => b(ffi::rodbus_database_update_input_register(db, idx, val)),
        ('d', 'c') => b(ffi::rodbus_database_delete_coil(db, idx)),
        ('d', 'd') => b(ffi::rodbus_database_delete_discrete_input(db, idx)),
        ('d', 'h') => b(ffi::rodbus_database_delete_holding_register(db, idx)),
        ('d', 'i') => b(ffi::rodbus_database_delete_input_register(db, idx)),
        ('g', 'c') | ('g', 'd') => {
            let mut out = false;
            let rc = if t == 'c' {
                ffi::rodbus_database_get_coil(db, idx, &mut out)
            } else {
                ffi::rodbus_database_get_discrete_input(db, idx, &mut out)
            };
            if rc == 0 {
                format!("b{}", out as u8)
            } else if rc == ffi::ParamError::InvalidIndex as i32 {
                "-".into()
            } else {
                format!("ERR:{}", param_error_name(rc))
            }
        }
        ('g', 'h') | ('g', 'i') => {
            let mut out = 0u16;
            let rc = if t == 'h' {
                ffi::rodbus_database_get_holding_register(db, idx, &mut out)
            } else {
                ffi::rodbus_database_get_input_register(db, idx, &mut out)
            };
            if rc == 0 {
                format!("r{out}")
            } else if rc == ffi::ParamError::InvalidIndex as i32 {
                "-".into()
            } else {
                format!("ERR:{}", param_error_name(rc))
            }
        }
        _ => panic!("bad op {op}"),
    }
}

extern "C" fn run_batch(db: *mut rodbus_ffi::Database, ctx: *mut c_void) {
    let mut b = unsafe { ctx_ref::<Batch>(ctx) }.lock().unwrap();
    let ops = b.ops.clone();
    for op in ops {
        let r = unsafe { exec_op(db, &op) };
        b.results.push(r);
    }
}

fn batch_callback(ops: &str) -> (&'static Mutex<Batch>, ffi::DatabaseCallback) {
    let (state, ctx) = leak_ctx(Batch {
        ops: ops.split(';').filter(|s| !s.is_empty()).map(|s| s.to_string()).collect(),
        results: Vec::new(),
    });
    (
        state,
        ffi::DatabaseCallback {
            callback: Some(run_batch),
            on_destroy: Some(noop_destroy),
            ctx,
        },
    )
}

async fn client_read(ch: &Channel, unit: u8, spec: &str) -> String {
    let t = spec.as_bytes()[0] as char;
    let (s, c) = spec[1..].split_once(',').unwrap();
    let range = match AddressRange::try_from(s.parse().unwrap(), c.parse().unwrap()) {
        Ok(r) => r,
        Err(e) => return format!("ERR:{e:?}"),
    };
    let param = RequestParam::new(UnitId::new(unit), Duration::from_secs(5));
    fn ex(e: RequestError) -> String {
        match e {
            RequestError::Exception(x) => format!("E{}", u8::from(x)),
            other => format!("ERR:{other:?}"),
        }
    }
    for _ in 0..600 {
        let r = match t {
            'c' => ch.read_coils(param, range).await.map(|v| v.iter().map(|x| format!("b{}", x.value as u8)).collect::<Vec<_>>()),
            'd' => ch.read_discrete_inputs(param, range).await.map(|v| v.iter().map(|x| format!("b{}", x.value as u8)).collect::<Vec<_>>()),
            'h' => ch.read_holding_registers(param, range).await.map(|v| v.iter().map(|x| format!("r{}", x.value)).collect::<Vec<_>>()),
            _ => ch.read_input_registers(param, range).await.map(|v| v.iter().map(|x| format!("r{}", x.value)).collect::<Vec<_>>()),
        };
        match r {
            Ok(v) => return format!("[{}]", v.join(",")),
            Err(RequestError::NoConnection) => {
                tokio::time::sleep(Duration::from_millis(5)).await;
                continue;
            }
            Err(e) => return ex(e),
        }
    }
    "ERR:NoConnection(after retries)".into()
}

/// One C-ABI server for a batch of cases: case k owns unit id k+1 and therefore its own database, configured
/// by its own `I:` group inside rodbus_device_map_add_endpoint; one client connection serves all reads.
fn batch(rt: &tokio::runtime::Runtime, ffi_rt: &FfiRuntime, lines: &[String]) -> Vec<String> {
    assert!(lines.len() <= 240);
    for _attempt in 0..8 {
        let mut outs: Vec<Vec<String>> = vec![Vec::new(); lines.len()];
        unsafe {
            let map = ffi::rodbus_device_map_create();
            for (k, line) in lines.iter().enumerate() {
                let init_ops = match line.split_whitespace().next() {
                    Some(g) if g.starts_with("I:") => g[2..].to_string(),
                    _ => String::new(),
                };
                let (state, cb) = batch_callback(&init_ops);
                let ok = ffi::rodbus_device_map_add_endpoint(map, (k + 1) as u8, accepting_write_handler(), cb);
                assert!(ok);
                outs[k].extend(state.lock().unwrap().results.clone());
            }
            let filter = ffi::rodbus_address_filter_any();
            let port = free_port("127.0.0.1");
            let ip = cstr("127.0.0.1");
            let mut server: *mut rodbus_ffi::Server = std::ptr::null_mut();
            let rc = ffi::rodbus_server_create_tcp(ffi_rt.0, ip.as_ptr(), port, filter, 4, map, decode_nothing(), &mut server);
            ffi::rodbus_device_map_destroy(map);
            ffi::rodbus_address_filter_destroy(filter);
            if rc != 0 {
                continue;
            }
            let channel = {
                let _g = rt.enter();
                spawn_tcp_client_task(
                    HostAddr::ip(IpAddr::from([127, 0, 0, 1]), port),
                    4,
                    rodbus::doubling_retry_strategy(Duration::from_millis(10), Duration::from_millis(40)),
                    DecodeLevel::nothing(),
                    None,
                )
            };
            let _ = rt.block_on(channel.enable());
            for (k, line) in lines.iter().enumerate() {
                let unit = (k + 1) as u8;
                for g in line.split_whitespace() {
                    if g.starts_with("I:") {
                        continue;
                    }
                    if let Some(ops) = g.strip_prefix("T:") {
                        let (state, cb) = batch_callback(ops);
                        let rc = ffi::rodbus_server_update_database(server, unit, cb);
                        if rc != 0 {
                            outs[k].push(format!("ERR:update_database:{}", param_error_name(rc)));
                        }
                        outs[k].extend(state.lock().unwrap().results.clone());
                    } else if let Some(spec) = g.strip_prefix("R:") {
                        outs[k].push(rt.block_on(client_read(&channel, unit, spec)));
                    } else {
                        outs[k].push(format!("ERR:group {g}"));
                    }
                }
            }
            drop(channel);
            ffi::rodbus_server_destroy(server);
            return outs.into_iter().map(|o| o.join(";")).collect();
        }
    }
    vec!["FAIL:bind".to_string(); lines.len()]
}

pub fn main(_args: &[String]) -> i32 {
    if std::env::var("VERIF_LOUD_PANICS").is_err() {
        crate::util::quiet_panics();
    }
    let rt = Arc::new(tokio::runtime::Builder::new_multi_thread().worker_threads(6).enable_all().build().unwrap());
    let ffi_rt = Arc::new(ffi_runtime(4));
    let lines: Vec<String> = crate::util::stdin_lines().collect();
    let batches: Arc<Vec<Vec<String>>> = Arc::new(lines.chunks(100).map(|c| c.to_vec()).collect());
    let results: Arc<Mutex<Vec<Vec<String>>>> = Arc::new(Mutex::new(vec![Vec::new(); batches.len()]));
    let next = Arc::new(AtomicUsize::new(0));
    let mut workers = Vec::new();
    for _ in 0..12 {
        let (rt, ffi_rt, batches, results, next) = (rt.clone(), ffi_rt.clone(), batches.clone(), results.clone(), next.clone());
        workers.push(std::thread::spawn(move || loop {
            let i = next.fetch_add(1, Ordering::SeqCst);
            if i >= batches.len() {
                break;
            }
            let b = batches[i].clone();
            let n = b.len();
            let (rt2, f2) = (rt.clone(), ffi_rt.clone());
            let r = std::panic::catch_unwind(std::panic::AssertUnwindSafe(move || batch(&rt2, &f2, &b)));
            results.lock().unwrap()[i] = r.unwrap_or_else(|_| vec!["PANIC".to_string(); n]);
        }));
    }
    for w in workers {
        let _ = w.join();
    }
    for b in results.lock().unwrap().iter() {
        for r in b {
            println!("{r}");
        }
    }
    0
}
