//! C01 (thorough tier, black box): the public TCP server (`create_tcp_server_task`: listener task +
//! session task, real sockets on 127.0.0.1) with the instrumented handlers of `server`.
//!
//! input line: as for `server`, framing must be tcp, authorization none, at least one unit.
//! After the case's frames a sentinel request (fc 03 with quantity 0 to the first configured unit,
//! transaction id not used by the case) is sent; everything received before its exception-03 reply
//! is the server's answer to the case.
//! output line: <replies>|<log>|<end>   replies = the MBAP frames received, comma separated (silence
//! is simply absent), log as for `server`, end = open | closed (connection closed by the server
//! before the sentinel was answered) | timeout
use std::sync::{Arc, Mutex};
use std::time::Duration;

use rodbus::server::{create_tcp_server_task, AddressFilter};
use rodbus::DecodeLevel;
use tokio::io::{AsyncReadExt, AsyncWriteExt};

use super::server::{compress, parse_units, Log};
use crate::util::{hex, unhex};

async fn read_frame(s: &mut tokio::net::TcpStream) -> Option<Vec<u8>> {
    let mut hdr = [0u8; 7];
    s.read_exact(&mut hdr).await.ok()?;
    let len = ((hdr[4] as usize) << 8) | hdr[5] as usize;
    let mut body = vec![0u8; len.saturating_sub(1)];
    s.read_exact(&mut body).await.ok()?;
    let mut v = hdr.to_vec();
    v.extend(body);
    Some(v)
}

fn run_case(line: &str) -> String {
    let f: Vec<&str> = line.trim().split('|').collect();
    assert!(f.len() == 4 && f[0] == "tcp" && f[2] == "none" && f[1] != "-", "server_tcp: tcp, no authorization, at least one unit");
    let log: Log = Arc::new(Mutex::new(Vec::new()));
    let map = parse_units(f[1], &log);
    let first_unit: u8 = f[1].split(';').next().unwrap().split(':').next().unwrap().parse().unwrap();
    let frames: Vec<Vec<u8>> = if f[3] == "-" { Vec::new() } else { f[3].split(',').filter(|x| !x.starts_with('@')).map(unhex).collect() };
    let used: Vec<u16> = frames.iter().filter(|x| x.len() >= 2).map(|x| ((x[0] as u16) << 8) | x[1] as u16).collect();
    let sentinel_tx = (0..=u16::MAX).rev().find(|t| !used.contains(t)).unwrap();
    let sentinel = vec![(sentinel_tx >> 8) as u8, sentinel_tx as u8, 0, 0, 0, 6, first_unit, 3, 0, 0, 0, 0];

    let rt = tokio::runtime::Builder::new_current_thread().enable_all().build().unwrap();
    let (replies, end) = rt.block_on(async move {
        let listener = tokio::net::TcpListener::bind("127.0.0.1:0").await.unwrap();
        let addr = listener.local_addr().unwrap();
        let (_handle, task) = create_tcp_server_task(1, listener, map, AddressFilter::Any, DecodeLevel::nothing());
        let server = tokio::spawn(task.run());
        let mut stream = tokio::net::TcpStream::connect(addr).await.unwrap();
        stream.set_nodelay(true).unwrap();
        for fr in &frames {
            stream.write_all(fr).await.unwrap();
        }
        stream.write_all(&sentinel).await.unwrap();
        let mut replies: Vec<String> = Vec::new();
        let end = loop {
            match tokio::time::timeout(Duration::from_secs(10), read_frame(&mut stream)).await {
                Err(_) => break "timeout",
                Ok(None) => break "closed",
                Ok(Some(fr)) => {
                    if fr[0] == (sentinel_tx >> 8) as u8 && fr[1] == sentinel_tx as u8 {
                        break "open";
                    }
                    replies.push(hex(&fr));
                }
            }
        };
        server.abort();
        (replies, end)
    });
    let log = compress(&log.lock().unwrap());
    format!(
        "{}|{}|{}",
        if replies.is_empty() { "-".to_string() } else { replies.join(",") },
        if log.is_empty() { "-".to_string() } else { log.join(";") },
        end
    )
}

pub fn main(_args: &[String]) -> i32 {
    crate::util::quiet_panics();
    for line in crate::util::stdin_lines() {
        let l = line.clone();
        match std::panic::catch_unwind(move || run_case(&l)) {
            Ok(s) => println!("{s}"),
            Err(_) => println!("PANIC"),
        }
    }
    0
}
