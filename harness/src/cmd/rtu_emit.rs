//! C06 (emit, client side): the production ClientLoop with the RTU FrameWriter; what goes on the
//! wire for one request.
//! input line:  <unit> rc|rd|rh|ri <start> <count>  |  <unit> wsc <idx> <0|1>  |  <unit> wsr <idx> <value>
//!              | <unit> wmc <start> <0/1 string or -> | <unit> wmr <start> <v,v,..|->
//! output line: hex of everything written to the transport ('-' if nothing), or ERR if the request
//!              was refused before anything was written
//! optional argument: --decode min|max
use crate::util::hex;
use crate::wire::Wire;
use rodbus::client::{RequestParam, WriteMultiple};
use rodbus::verif::{ClientSession, Framing};
use rodbus::{AddressRange, DecodeLevel, Indexed, UnitId};
use std::time::Duration;

async fn run_case(line: String, decode: DecodeLevel) -> String {
    let p: Vec<&str> = line.split_whitespace().collect();
    let unit: u8 = p[0].parse().unwrap();
    let kind = p[1].to_string();
    let a: u16 = p[2].parse().unwrap();
    let arg = p.get(3).copied().unwrap_or("-").to_string();
    let (channel, mut session) = ClientSession::new(Framing::RtuResponse, 16, decode, None);
    channel.enable().await.unwrap();
    let wire = Wire::new();
    let ch = channel.clone();
    let param = RequestParam::new(UnitId::new(unit), Duration::from_secs(1));
    let req = tokio::spawn(async move {
        let range = |c: &str| AddressRange::try_from(a, c.parse().unwrap());
        let r: Result<(), String> = match kind.as_str() {
            "rc" => match range(&arg) { Ok(r) => ch.read_coils(param, r).await.map(|_| ()).map_err(|e| format!("{e:?}")), Err(e) => Err(format!("{e:?}")) },
            "rd" => match range(&arg) { Ok(r) => ch.read_discrete_inputs(param, r).await.map(|_| ()).map_err(|e| format!("{e:?}")), Err(e) => Err(format!("{e:?}")) },
            "rh" => match range(&arg) { Ok(r) => ch.read_holding_registers(param, r).await.map(|_| ()).map_err(|e| format!("{e:?}")), Err(e) => Err(format!("{e:?}")) },
            "ri" => match range(&arg) { Ok(r) => ch.read_input_registers(param, r).await.map(|_| ()).map_err(|e| format!("{e:?}")), Err(e) => Err(format!("{e:?}")) },
            "wsc" => ch.write_single_coil(param, Indexed::new(a, arg == "1")).await.map(|_| ()).map_err(|e| format!("{e:?}")),
            "wsr" => ch.write_single_register(param, Indexed::new(a, arg.parse().unwrap())).await.map(|_| ()).map_err(|e| format!("{e:?}")),
            "wmc" => {
                let v: Vec<bool> = if arg == "-" { vec![] } else { arg.chars().map(|c| c == '1').collect() };
                match WriteMultiple::from(a, v) { Ok(w) => ch.write_multiple_coils(param, w).await.map(|_| ()).map_err(|e| format!("{e:?}")), Err(e) => Err(format!("{e:?}")) }
            }
            "wmr" => {
                let v: Vec<u16> = if arg == "-" { vec![] } else { arg.split(',').map(|x| x.parse().unwrap()).collect() };
                match WriteMultiple::from(a, v) { Ok(w) => ch.write_multiple_registers(param, w).await.map(|_| ()).map_err(|e| format!("{e:?}")), Err(e) => Err(format!("{e:?}")) }
            }
            k => panic!("bad kind {k}"),
        };
        r
    });
    let driver = async {
        crate::wire::settle().await;
        crate::wire::settle().await;
    };
    tokio::select! {
        _ = session.run(Box::new(wire.clone())) => {}
        _ = driver => {}
    }
    let out = wire.out_flat();
    if out.is_empty() {
        if req.is_finished() {
            return "ERR".to_string();
        }
        return "-".to_string();
    }
    hex(&out)
}

pub fn main(args: &[String]) -> i32 {
    crate::util::quiet_panics();
    let decode = crate::util::decode_arg(args);
    for line in crate::util::stdin_lines() {
        let res = std::panic::catch_unwind(move || {
            let rt = tokio::runtime::Builder::new_current_thread().enable_time().start_paused(true).build().unwrap();
            rt.block_on(run_case(line, decode))
        });
        match res {
            Ok(s) => println!("{s}"),
            Err(e) => println!("{}", crate::util::panic_name(&e)),
        }
    }
    0
}
