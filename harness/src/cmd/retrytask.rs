//! C14 task level: the REAL `spawn_tcp_client_task` / `spawn_tls_client_task` on loopback with a
//! recording, gating Listener, against a scripted peer.
//!
//! input line:  <variant> <min_ms> <max_ms> <script>
//!   variant  tcp | tls:<dir with ca_cert.pem client_cert.pem client_key.pem>
//!   script   one letter per connect attempt:
//!            r  the port is closed (connection refused)
//!            c  the peer accepts and closes at once (tcp: a lost connection; tls: a failed handshake)
//!            s  the peer accepts, serves one request, then closes (tcp only)
//!            t  (tls) the peer accepts the TCP connection, sends nothing for 150 ms, then closes: the client is
//!               parked in its handshake; a request submitted meanwhile must stay unanswered until then
//!            w  (tls:<dir>:<otherdir>) a real rodbus TLS server whose certificate chains to ANOTHER authority
//!               (<otherdir>/server_cert.pem, server_key.pem, ca_cert.pem): the client must refuse it = a failed connect
//!            h  (tls:<dir>) a real rodbus TLS server the client accepts (<dir>/server_cert.pem ..): Connected,
//!               then the server is stopped (the connection is lost)
//!            e  the peer accepts; once Connected is announced the channel is disabled and enabled again (the
//!               connection ends without a wait; a successful connection must have reset the back-off)
//!            g  (tcp) the peer accepts and, once Connected is announced, sends an MBAP header with an unknown
//!               protocol id; it keeps the socket open until the wait is announced (the session ends with BadFrame)
//!            m  (tcp) the peer accepts and never answers; once Connected is announced two requests with a 30 ms
//!               response timeout are made (the tcp client is created with max_response_timeouts = 2); the
//!               socket stays open until the wait is announced (the session ends with MaxTimeouts)
//!            q  refused, and while the announced wait is pending a request is submitted (it fails with
//!               NoConnection and must not shorten the wait)
//!            d  refused, and while the announced wait is pending the channel is disabled and enabled again
//!               (the wait is abandoned: mark 'i' = a Disabled announcement lies between the wait and the
//!               next Connecting)
//!   variant  rtu   the REAL `spawn_rtu_client_task` on a pty (libc::openpty); script letters:
//!            r  the device path does not exist (open fails)
//!            o  the port opens, then the pty master is closed (the session is lost)
//!            (PortState has no Connecting: the Listener holds the task at every Wait(d) announcement
//!            until the next outcome is prepared, the delay is measured from the release of that
//!            hold to the next announcement, which directly follows the next open attempt)
//!   variant  rtuserver   the REAL `spawn_rtu_server_task` on a pty. The RTU server has no listener: the
//!            delay is only logged, so a tracing subscriber records the task's log lines with time
//!            stamps ("unable to open serial port, retrying in <d>", "waiting <d> to reopen port",
//!            "opened port"). Script letters as for rtu; the outcome of an attempt depends on what
//!            the harness managed to prepare during the preceding wait, so the ACTUAL outcome of
//!            every attempt is reported (F = the open failed, D = the port opened and was lost) and
//!            the caller computes the expected delays for the actual sequence. Extra letter l = like r, and
//!            during the wait that follows a decode-level change is sent through the ServerHandle.
//! The Listener records every ClientState with a monotonic time stamp and holds the task at every
//! `Connecting` announcement until the scripted peer is ready for the next attempt.
//! output line: one field per announced wait, ','-separated:  <F|D><delay in ns><+|-|?>
//!   F = WaitAfterFailedConnect, D = WaitAfterDisconnect; '+' the next Connecting was announced no
//!   earlier than the delay after the wait announcement, '-' earlier, '?' no further Connecting seen
use std::net::{Ipv4Addr, SocketAddr};
use std::path::Path;
use std::time::{Duration, Instant};

use rodbus::client::*;
use rodbus::*;
use tokio::io::{AsyncReadExt, AsyncWriteExt};
use tokio::net::TcpListener;
use tokio::sync::mpsc;

struct Gate {
    events: mpsc::UnboundedSender<(ClientState, Instant)>,
    permits: std::sync::Arc<tokio::sync::Mutex<mpsc::Receiver<()>>>,
}

impl Listener<ClientState> for Gate {
    fn update(&mut self, value: ClientState) -> MaybeAsync<()> {
        let _ = self.events.send((value, Instant::now()));
        if value == ClientState::Connecting {
            let permits = self.permits.clone();
            MaybeAsync::asynchronous(async move {
                let _ = permits.lock().await.recv().await;
            })
        } else {
            MaybeAsync::ready(())
        }
    }
}

enum PortEv {
    State(PortState, Instant),
    Released(Instant),
}

struct PortGate {
    events: mpsc::UnboundedSender<PortEv>,
    permits: std::sync::Arc<tokio::sync::Mutex<mpsc::Receiver<()>>>,
}

impl Listener<PortState> for PortGate {
    fn update(&mut self, value: PortState) -> MaybeAsync<()> {
        let _ = self.events.send(PortEv::State(value, Instant::now()));
        if let PortState::Wait(_) = value {
            let permits = self.permits.clone();
            let events = self.events.clone();
            MaybeAsync::asynchronous(async move {
                let _ = permits.lock().await.recv().await;
                let _ = events.send(PortEv::Released(Instant::now()));
            })
        } else {
            MaybeAsync::ready(())
        }
    }
}

static LOG: std::sync::Mutex<Vec<(Instant, String)>> = std::sync::Mutex::new(Vec::new());

struct LogWriter;
impl std::io::Write for LogWriter {
    fn write(&mut self, buf: &[u8]) -> std::io::Result<usize> {
        LOG.lock().unwrap().push((Instant::now(), String::from_utf8_lossy(buf).to_string()));
        Ok(buf.len())
    }
    fn flush(&mut self) -> std::io::Result<()> {
        Ok(())
    }
}

fn parse_debug_duration(s: &str) -> Option<Duration> {
    // Debug format of std::time::Duration: 20ms, 1s, 1.5s, 500µs, 10ns
    let s = s.trim();
    let (num, unit) = s.split_at(s.find(|c: char| !(c.is_ascii_digit() || c == '.'))?);
    let x: f64 = num.parse().ok()?;
    let ns = match unit {
        "ns" => x,
        "µs" => x * 1e3,
        "ms" => x * 1e6,
        "s" => x * 1e9,
        _ => return None,
    };
    Some(Duration::from_nanos(ns.round() as u64))
}

struct NoHandler;
impl rodbus::server::RequestHandler for NoHandler {}

async fn rtu_server_scenario(min: Duration, max: Duration, script: &str, n: usize) -> String {
    use rodbus::server::*;
    let dir = std::env::temp_dir().join(format!("verif-ptys-{}-{}", std::process::id(), n));
    let _ = std::fs::create_dir_all(&dir);
    let link = dir.join("port");
    let _ = std::fs::remove_file(&link);
    let mut pty: Option<Pty> = None;
    let prepare = |o: Option<char>, pty: &mut Option<Pty>| -> bool {
        let _ = std::fs::remove_file(&link);
        if let Some(p) = pty.take() {
            p.close();
        }
        if o == Some('o') {
            match Pty::open() {
                Some(p) => {
                    if std::os::unix::fs::symlink(&p.path, &link).is_err() {
                        return false;
                    }
                    *pty = Some(p);
                }
                None => return false,
            }
        }
        true
    };
    let mut outcomes = script.chars();
    let total = script.chars().count();
    // the outcome letter of the attempt that is in progress ('l' = like 'r', and during the wait that follows it a
    // decode-level change is sent through the ServerHandle: it must not shorten the wait)
    let mut current = outcomes.next();
    if !prepare(current, &mut pty) {
        return "NOPTY".to_string();
    }
    let mut level = false;
    let tag = format!("{:?}", link.to_str().unwrap());
    let mut handle = match spawn_rtu_server_task(
        link.to_str().unwrap(),
        SerialSettings::default(),
        doubling_retry_strategy(min, max),
        ServerHandlerMap::single(UnitId::new(1), NoHandler.wrap()),
        DecodeLevel::nothing(),
    ) {
        Ok(h) => h,
        Err(_) => return "NOSERVER".to_string(),
    };
    let mut cursor = 0usize;
    let mut out: Vec<String> = Vec::new();
    let mut pending: Option<(Duration, Instant, usize)> = None;
    let deadline = Instant::now() + (max + Duration::from_millis(200)) * (total as u32 + 2) + Duration::from_secs(3);
    'outer: while Instant::now() < deadline {
        let lines: Vec<(Instant, String)> = {
            let g = LOG.lock().unwrap();
            let v: Vec<_> = g[cursor.min(g.len())..].to_vec();
            cursor = g.len();
            v
        };
        if lines.is_empty() {
            tokio::time::sleep(Duration::from_millis(1)).await;
            continue;
        }
        for (t, line) in lines {
            if !line.contains(&tag) {
                continue;
            }
            let attempt = line.contains("opened port") || line.contains("unable to open serial port");
            if attempt {
                if let Some((d, t0, ix)) = pending.take() {
                    out[ix].push(if t.duration_since(t0) >= d { '+' } else { '-' });
                    if out.len() >= total {
                        break 'outer;
                    }
                }
            }
            if line.contains("opened port") {
                // lose the session
                let _ = std::fs::remove_file(&link);
                if let Some(p) = pty.take() {
                    p.close();
                }
            }
            let wait = if let Some(ix) = line.find("retrying in ") {
                let rest = &line[ix + "retrying in ".len()..];
                rest.split(" - ").next().and_then(parse_debug_duration).map(|d| ('F', d))
            } else if let Some(ix) = line.find("waiting ") {
                let rest = &line[ix + "waiting ".len()..];
                rest.split(" to reopen").next().and_then(parse_debug_duration).map(|d| ('D', d))
            } else {
                None
            };
            if let Some((kind, d)) = wait {
                out.push(format!("{kind}{}", d.as_nanos()));
                pending = Some((d, t, out.len() - 1));
                if current == Some('l') {
                    level = !level;
                    let l = if level { DecodeLevel::new(AppDecodeLevel::DataValues, FrameDecodeLevel::Payload, PhysDecodeLevel::Data) } else { DecodeLevel::nothing() };
                    let _ = handle.set_decode_level(l).await;
                }
                current = outcomes.next();
                if !prepare(current, &mut pty) {
                    return "NOPTY".to_string();
                }
            }
        }
    }
    drop(handle);
    if let Some(p) = pty.take() {
        p.close();
    }
    let _ = std::fs::remove_dir_all(&dir);
    for f in out.iter_mut() {
        if !f.ends_with('+') && !f.ends_with('-') {
            f.push('?');
        }
    }
    out.join(",")
}

struct Pty {
    master: i32,
    slave: i32,
    path: String,
}

impl Pty {
    fn open() -> Option<Pty> {
        let mut master = 0;
        let mut slave = 0;
        let mut name = [0 as libc::c_char; 256];
        let rc = unsafe { libc::openpty(&mut master, &mut slave, name.as_mut_ptr(), std::ptr::null(), std::ptr::null()) };
        if rc != 0 {
            return None;
        }
        let path = unsafe { std::ffi::CStr::from_ptr(name.as_ptr()) }.to_string_lossy().to_string();
        Some(Pty { master, slave, path })
    }
    fn close(self) {
        unsafe {
            libc::close(self.slave);
            libc::close(self.master);
        }
    }
}

async fn rtu_scenario(min: Duration, max: Duration, script: &str, n: usize) -> String {
    let dir = std::env::temp_dir().join(format!("verif-pty-{}-{}", std::process::id(), n));
    let _ = std::fs::create_dir_all(&dir);
    let link = dir.join("port");
    let _ = std::fs::remove_file(&link);
    let (ev_tx, mut ev_rx) = mpsc::unbounded_channel();
    let (permit_tx, permit_rx) = mpsc::channel::<()>(1);
    let gate = PortGate { events: ev_tx, permits: std::sync::Arc::new(tokio::sync::Mutex::new(permit_rx)) };
    let mut pty: Option<Pty> = None;
    let mut outcomes = script.chars();
    // prepare the first outcome before the task makes its first attempt
    let prepare = |o: Option<char>, pty: &mut Option<Pty>| -> bool {
        let _ = std::fs::remove_file(&link);
        if let Some(p) = pty.take() {
            p.close();
        }
        if o == Some('o') {
            match Pty::open() {
                Some(p) => {
                    if std::os::unix::fs::symlink(&p.path, &link).is_err() {
                        return false;
                    }
                    *pty = Some(p);
                }
                None => return false,
            }
        }
        true
    };
    let mut current = outcomes.next();
    if !prepare(current, &mut pty) {
        return "NOPTY".to_string();
    }
    let channel = spawn_rtu_client_task(
        link.to_str().unwrap(),
        SerialSettings::default(),
        4,
        doubling_retry_strategy(min, max),
        DecodeLevel::nothing(),
        Some(Box::new(gate)),
    );
    let _ = channel.enable().await;
    let limit = max + Duration::from_secs(4);
    let mut out: Vec<String> = Vec::new();
    let mut pending: Option<(Duration, Instant, usize)> = None; // (announced delay, release time, index in out)
    loop {
        let ev = match tokio::time::timeout(limit, ev_rx.recv()).await {
            Ok(Some(e)) => e,
            _ => break,
        };
        match ev {
            PortEv::Released(t) => {
                if let Some(p) = pending.as_mut() {
                    p.1 = t;
                }
            }
            PortEv::State(state, t) => {
                match state {
                    PortState::Open | PortState::Wait(_) => {
                        // this announcement directly follows the open attempt that ended the pending wait
                        if let Some((d, rel, ix)) = pending.take() {
                            out[ix].push(if t.duration_since(rel) >= d { '+' } else { '-' });
                        }
                    }
                    _ => {}
                }
                match state {
                    PortState::Open => {
                        if current != Some('o') {
                            return format!("UNEXPECTED-OPEN:{}", out.join(","));
                        }
                        // lose the session: close the pty (the next outcome is prepared at the Wait announcement)
                        let _ = std::fs::remove_file(&link);
                        if let Some(p) = pty.take() {
                            p.close();
                        }
                    }
                    PortState::Wait(d) => {
                        let kind = if current == Some('o') { 'D' } else { 'F' };
                        out.push(format!("{kind}{}", d.as_nanos()));
                        pending = Some((d, Instant::now(), out.len() - 1));
                        let had = current.is_some();
                        current = outcomes.next();
                        if !had {
                            // the wait after the script's end has been observed: stop here
                            out.pop();
                            let _ = permit_tx.send(()).await;
                            break;
                        }
                        if !prepare(current, &mut pty) {
                            return "NOPTY".to_string();
                        }
                        let _ = permit_tx.send(()).await;
                    }
                    _ => {}
                }
            }
        }
    }
    let _ = channel.shutdown().await;
    if let Some(p) = pty.take() {
        p.close();
    }
    let _ = std::fs::remove_dir_all(&dir);
    for f in out.iter_mut() {
        if !f.ends_with('+') && !f.ends_with('-') {
            f.push('?');
        }
    }
    out.join(",")
}

async fn bind(addr: SocketAddr) -> Option<TcpListener> {
    for _ in 0..50 {
        if let Ok(l) = TcpListener::bind(addr).await {
            return Some(l);
        }
        tokio::time::sleep(Duration::from_millis(10)).await;
    }
    None
}

async fn scenario(line: String, ip: Ipv4Addr, n: usize) -> String {
    let parts: Vec<&str> = line.split_whitespace().collect();
    if parts.len() < 3 {
        return "BADLINE".to_string();
    }
    let variant = parts[0];
    let min = Duration::from_millis(parts[1].parse().unwrap());
    let max = Duration::from_millis(parts[2].parse().unwrap());
    let script = parts.get(3).copied().unwrap_or("");
    if variant == "rtu" {
        return rtu_scenario(min, max, script, n).await;
    }
    if variant == "rtuserver" {
        return rtu_server_scenario(min, max, script, n).await;
    }
    // reserve a port number on this scenario's own loopback address
    let port = std::net::TcpListener::bind((ip, 0)).unwrap().local_addr().unwrap().port();
    let addr = SocketAddr::from((ip, port));
    let (ev_tx, mut ev_rx) = mpsc::unbounded_channel();
    let (permit_tx, permit_rx) = mpsc::channel::<()>(1);
    let gate = Gate { events: ev_tx, permits: std::sync::Arc::new(tokio::sync::Mutex::new(permit_rx)) };
    let retry = doubling_retry_strategy(min, max);
    let host = HostAddr::ip(std::net::IpAddr::V4(ip), port);
    let tls_dirs: Option<(String, String)> = variant.strip_prefix("tls:").map(|rest| match rest.split_once(':') {
        Some((a, b)) => (a.to_string(), b.to_string()),
        None => (rest.to_string(), rest.to_string()),
    });
    let channel = if let Some((dir, _)) = tls_dirs.as_ref() {
        let dir = dir.as_str();
        let cfg = match TlsClientConfig::full_pki(
            Some("test.com".to_string()),
            &Path::new(dir).join("ca_cert.pem"),
            &Path::new(dir).join("client_cert.pem"),
            &Path::new(dir).join("client_key.pem"),
            None,
            MinTlsVersion::V1_2,
        ) {
            Ok(c) => c,
            Err(e) => return format!("CONFIG:{e}"),
        };
        spawn_tls_client_task(host, 4, retry, cfg, DecodeLevel::nothing(), Some(Box::new(gate)))
    } else {
        let options = ClientOptions::default()
            .decode_level(DecodeLevel::nothing())
            .max_queued_requests(4)
            .max_response_timeouts(std::num::NonZeroUsize::new(2));
        spawn_tcp_client_task_with_options(host, retry, Some(Box::new(gate)), options)
    };
    let _ = channel.enable().await;
    let mut log: Vec<(ClientState, Instant)> = Vec::new();
    let mut listener: Option<TcpListener> = None;
    #[allow(unused_assignments, unused_variables)]
    let mut tls_server: Option<rodbus::server::ServerHandle> = None;
    let limit = max + Duration::from_secs(4);

    // consume events up to and including the next Connecting; false on timeout
    async fn until_connecting(rx: &mut mpsc::UnboundedReceiver<(ClientState, Instant)>, log: &mut Vec<(ClientState, Instant)>, limit: Duration) -> bool {
        loop {
            match tokio::time::timeout(limit, rx.recv()).await {
                Ok(Some((s, t))) => {
                    log.push((s, t));
                    if s == ClientState::Connecting {
                        return true;
                    }
                }
                _ => return false,
            }
        }
    }

    for outcome in script.chars() {
        if !until_connecting(&mut ev_rx, &mut log, limit).await {
            return "NOCONNECTING".to_string();
        }
        match outcome {
            'r' | 'd' | 'q' => listener = None,
            'w' | 'h' => {
                // a real TLS server takes the port for this attempt
                listener = None;
                let Some((good, other)) = tls_dirs.as_ref() else { return "NOTLS".to_string() };
                let d = Path::new(if outcome == 'h' { good } else { other });
                let cfg = match rodbus::server::TlsServerConfig::new(&d.join("ca_cert.pem"), &d.join("server_cert.pem"), &d.join("server_key.pem"), None, MinTlsVersion::V1_2, CertificateMode::AuthorityBased) {
                    Ok(c) => c,
                    Err(e) => return format!("CONFIG:{e}"),
                };
                let mut started = None;
                for _ in 0..50 {
                    let map = rodbus::server::ServerHandlerMap::single(UnitId::new(1), rodbus::server::RequestHandler::wrap(NoHandler));
                    match rodbus::server::spawn_tls_server_task(2, addr, map, cfg.clone(), rodbus::server::AddressFilter::Any, DecodeLevel::nothing()).await {
                        Ok(h) => {
                            started = Some(h);
                            break;
                        }
                        Err(_) => tokio::time::sleep(Duration::from_millis(10)).await,
                    }
                }
                if started.is_none() {
                    return "NOBIND".to_string();
                }
                tls_server = started;
            }
            _ => {
                if listener.is_none() {
                    listener = bind(addr).await;
                    if listener.is_none() {
                        return "NOBIND".to_string();
                    }
                }
            }
        }
        let _ = permit_tx.send(()).await;
        match outcome {
            'r' => {}
            'w' => {
                // the client refuses the server: wait for the announcement, then stop the server
                loop {
                    match tokio::time::timeout(limit, ev_rx.recv()).await {
                        Ok(Some((s, t))) => {
                            log.push((s, t));
                            if let ClientState::WaitAfterFailedConnect(_) | ClientState::Connected = s {
                                break;
                            }
                        }
                        _ => return "NOVERDICT".to_string(),
                    }
                }
                tls_server = None;
            }
            'h' => {
                loop {
                    match tokio::time::timeout(limit, ev_rx.recv()).await {
                        Ok(Some((s, t))) => {
                            log.push((s, t));
                            if let ClientState::WaitAfterFailedConnect(_) | ClientState::Connected = s {
                                break;
                            }
                        }
                        _ => return "NOVERDICT".to_string(),
                    }
                }
                // stopping the server closes the session: the connection is lost
                tls_server = None;
            }
            't' => {
                let l = listener.as_ref().unwrap();
                let sock = match tokio::time::timeout(Duration::from_secs(3), l.accept()).await {
                    Ok(Ok((sock, _))) => sock,
                    _ => return "NOACCEPT".to_string(),
                };
                // the client is (about to be) parked in its handshake. A request is submitted meanwhile; whatever
                // happens to it, nothing but TLS handshake records may arrive here: no Modbus byte before the handshake
                let mut sock = sock;
                let ch = channel.clone();
                let req = tokio::spawn(async move {
                    let p = RequestParam::new(UnitId::new(1), Duration::from_secs(2));
                    let _ = ch.read_holding_registers(p, AddressRange::try_from(0, 1).unwrap()).await;
                });
                let mut seen = Vec::new();
                let end = Instant::now() + Duration::from_millis(150);
                loop {
                    let left = end.saturating_duration_since(Instant::now());
                    if left.is_zero() {
                        break;
                    }
                    let mut buf = [0u8; 2048];
                    match tokio::time::timeout(left, sock.read(&mut buf)).await {
                        Ok(Ok(0)) | Ok(Err(_)) => break,
                        Ok(Ok(n)) => seen.extend_from_slice(&buf[..n]),
                        Err(_) => break,
                    }
                }
                drop(sock);
                let _ = tokio::time::timeout(Duration::from_secs(3), req).await;
                // a TLS record of type handshake (0x16), version major 3; and no MBAP header of a read request
                let modbus = seen.windows(8).any(|w| w[2] == 0 && w[3] == 0 && w[4] == 0 && w[5] == 6 && w[7] == 3);
                if seen.is_empty() || seen[0] != 0x16 || seen.get(1) != Some(&3) || (seen.len() < 64 && modbus) {
                    return format!("NOT-A-CLIENT-HELLO:{:02X?}", &seen[..seen.len().min(16)]);
                }
            }
            'q' => {
                loop {
                    match tokio::time::timeout(limit, ev_rx.recv()).await {
                        Ok(Some((s, t))) => {
                            log.push((s, t));
                            if let ClientState::WaitAfterFailedConnect(_) = s {
                                break;
                            }
                        }
                        _ => return "NOWAIT".to_string(),
                    }
                }
                let p = RequestParam::new(UnitId::new(1), Duration::from_secs(2));
                let _ = tokio::time::timeout(Duration::from_secs(3), channel.read_holding_registers(p, AddressRange::try_from(0, 1).unwrap())).await;
            }
            'e' => {
                let l = listener.as_ref().unwrap();
                let sock = match tokio::time::timeout(Duration::from_secs(3), l.accept()).await {
                    Ok(Ok((sock, _))) => sock,
                    _ => return "NOACCEPT".to_string(),
                };
                loop {
                    match tokio::time::timeout(limit, ev_rx.recv()).await {
                        Ok(Some((s, t))) => {
                            log.push((s, t));
                            if s == ClientState::Connected {
                                break;
                            }
                        }
                        _ => return "NOCONNECTED".to_string(),
                    }
                }
                let _ = channel.disable().await;
                // the connection must be ended by the disable, not by the peer: keep the socket until Disabled is announced
                loop {
                    match tokio::time::timeout(limit, ev_rx.recv()).await {
                        Ok(Some((s, t))) => {
                            log.push((s, t));
                            if s == ClientState::Disabled {
                                break;
                            }
                        }
                        _ => return "NODISABLED".to_string(),
                    }
                }
                let _ = channel.enable().await;
                drop(sock);
            }
            'd' => {
                // wait for the announcement of the wait, then disable and enable the channel
                loop {
                    match tokio::time::timeout(limit, ev_rx.recv()).await {
                        Ok(Some((s, t))) => {
                            log.push((s, t));
                            if let ClientState::WaitAfterFailedConnect(_) = s {
                                break;
                            }
                        }
                        _ => return "NOWAIT".to_string(),
                    }
                }
                let _ = channel.disable().await;
                let _ = channel.enable().await;
            }
            'g' | 'm' => {
                let l = listener.as_ref().unwrap();
                let mut sock = match tokio::time::timeout(Duration::from_secs(3), l.accept()).await {
                    Ok(Ok((sock, _))) => sock,
                    _ => return "NOACCEPT".to_string(),
                };
                loop {
                    match tokio::time::timeout(limit, ev_rx.recv()).await {
                        Ok(Some((s, t))) => {
                            log.push((s, t));
                            if s == ClientState::Connected {
                                break;
                            }
                        }
                        _ => return "NOCONNECTED".to_string(),
                    }
                }
                if outcome == 'g' {
                    // transaction 1, protocol id 0xCAFE: FrameParseError::UnknownProtocolId
                    let _ = sock.write_all(&[0, 1, 0xCA, 0xFE, 0, 2, 1, 3]).await;
                } else {
                    for k in 0..2 {
                        let p = RequestParam::new(UnitId::new(1), Duration::from_millis(30));
                        match tokio::time::timeout(Duration::from_secs(3), channel.read_holding_registers(p, AddressRange::try_from(0, 1).unwrap())).await {
                            Ok(Err(RequestError::ResponseTimeout)) => {}
                            other => return format!("NOTIMEOUT{k}:{other:?}"),
                        }
                    }
                }
                // the session must be ended by the client, not by the peer: keep the socket until the wait is announced
                loop {
                    match tokio::time::timeout(limit, ev_rx.recv()).await {
                        Ok(Some((s, t))) => {
                            log.push((s, t));
                            if let ClientState::WaitAfterDisconnect(_) | ClientState::WaitAfterFailedConnect(_) = s {
                                break;
                            }
                        }
                        _ => return "NOWAIT".to_string(),
                    }
                }
                drop(sock);
            }
            'c' => {
                let l = listener.as_ref().unwrap();
                match tokio::time::timeout(Duration::from_secs(3), l.accept()).await {
                    Ok(Ok((sock, _))) => drop(sock),
                    _ => return "NOACCEPT".to_string(),
                }
            }
            's' => {
                let l = listener.as_ref().unwrap();
                let mut sock = match tokio::time::timeout(Duration::from_secs(3), l.accept()).await {
                    Ok(Ok((sock, _))) => sock,
                    _ => return "NOACCEPT".to_string(),
                };
                let ch = channel.clone();
                let req = tokio::spawn(async move {
                    // the request is queued as soon as the task reports Connected; until then it may be
                    // failed with NoConnection, so retry for a while
                    for _ in 0..200 {
                        let p = RequestParam::new(UnitId::new(1), Duration::from_secs(2));
                        match ch.read_holding_registers(p, AddressRange::try_from(0, 1).unwrap()).await {
                            Ok(v) => return v.len() == 1 && v[0].value == 7,
                            Err(_) => tokio::time::sleep(Duration::from_millis(5)).await,
                        }
                    }
                    false
                });
                let mut buf = [0u8; 12];
                if tokio::time::timeout(Duration::from_secs(3), sock.read_exact(&mut buf)).await.is_err() {
                    return "NOREQUEST".to_string();
                }
                let reply = [buf[0], buf[1], 0, 0, 0, 5, buf[6], 3, 2, 0, 7];
                let _ = sock.write_all(&reply).await;
                match tokio::time::timeout(Duration::from_secs(3), req).await {
                    Ok(Ok(true)) => {}
                    _ => return "NOTSERVED".to_string(),
                }
                drop(sock);
            }
            _ => return "BADSCRIPT".to_string(),
        }
    }
    let _ = &tls_server;
    // the wait announced after the last attempt, and the Connecting that ends it
    let _ = until_connecting(&mut ev_rx, &mut log, limit).await;
    let _ = permit_tx.send(()).await;
    let _ = channel.shutdown().await;
    let mut out = Vec::new();
    for (k, (s, t)) in log.iter().enumerate() {
        let (kind, d) = match s {
            ClientState::WaitAfterFailedConnect(d) => ('F', *d),
            ClientState::WaitAfterDisconnect(d) => ('D', *d),
            _ => continue,
        };
        let next_ix = log[k + 1..].iter().position(|(s2, _)| *s2 == ClientState::Connecting);
        let next = next_ix.map(|ix| &log[k + 1 + ix]);
        let interrupted = next_ix.map(|ix| log[k + 1..k + 1 + ix].iter().any(|(s2, _)| *s2 == ClientState::Disabled)).unwrap_or(false);
        let mark = match next {
            None => '?',
            Some(_) if interrupted => 'i',
            Some((_, t2)) => {
                if t2.duration_since(*t) >= d {
                    '+'
                } else {
                    '-'
                }
            }
        };
        out.push(format!("{kind}{}{mark}", d.as_nanos()));
    }
    out.join(",")
}

pub fn main(_args: &[String]) -> i32 {
    crate::util::quiet_panics();
    // sfio-rustls-config println!s on every client certificate verification (letter h runs a TLS server in
    // this process): keep the result channel clean
    let mut result_out: std::fs::File = unsafe {
        use std::os::fd::FromRawFd;
        let saved = libc::dup(1);
        libc::dup2(2, 1);
        std::fs::File::from_raw_fd(saved)
    };
    let lines: Vec<String> = crate::util::stdin_lines().collect();
    if lines.iter().any(|l| l.starts_with("rtuserver")) {
        // the RTU server announces its delays only in its log
        let _ = tracing_subscriber::fmt()
            .with_max_level(tracing::Level::INFO)
            .with_ansi(false)
            .without_time()
            .with_writer(|| LogWriter)
            .try_init();
    }
    let rt = tokio::runtime::Builder::new_multi_thread().worker_threads(4).enable_all().build().unwrap();
    let pid = std::process::id();
    let results: Vec<String> = rt.block_on(async move {
        let mut handles = Vec::new();
        for (n, line) in lines.into_iter().enumerate() {
            let ip = Ipv4Addr::new(127, 1 + (pid % 200) as u8, (n / 250 % 250) as u8, (n % 250 + 1) as u8);
            handles.push(tokio::spawn(scenario(line, ip, n)));
        }
        let mut res = Vec::new();
        for h in handles {
            res.push(h.await.unwrap_or_else(|_| "PANIC".to_string()));
        }
        res
    });
    for r in results {
        use std::io::Write;
        let _ = writeln!(result_out, "{r}");
    }
    0
}
