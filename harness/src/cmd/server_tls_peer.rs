//! C08 over real TLS sessions with client certificates of different role content: one session per input line.
//! The rodbus TLS client presents `<ca dir>/<stem>_cert.pem` (key `<stem>_key.pem`; all issued by `<ca dir>/ca_cert.pem`)
//! to `spawn_tls_server_task_with_authz` on loopback (server certificate `<ca dir>/server_cert.pem`); the server's
//! instrumented AuthorizationHandler and point handlers are those of `server`. The role string the policy sees comes
//! from the certificate the peer presented, not from the test.
//!
//! input line: <stem>|<line as for `server_tls`>     e.g.  client_roleless|tcp|<units>|deny:<ignored>|<frames>
//! args: <ca dir>
//! output line: <results>|<log>|<end>   results: per request `ok` | `ex<code>` | `err` | `noconn`, log as for `server`,
//!   end = done (the client announced Connected) | REFUSED (the client announced the failed-connect wait instead: no
//!   request was sent) | NOCONNECT | CONFIG
use std::net::{Ipv4Addr, SocketAddr};
use std::path::Path;
use std::sync::{Arc, Mutex};
use std::time::Duration;

use rodbus::client::*;
use rodbus::server::*;
use rodbus::*;

use super::server::{compress, parse_units, DefaultAuth, Log, LoggedAuth, Policy};
use crate::util::unhex;

struct StateListener {
    tx: tokio::sync::mpsc::UnboundedSender<ClientState>,
}
impl Listener<ClientState> for StateListener {
    fn update(&mut self, value: ClientState) -> MaybeAsync<()> {
        let _ = self.tx.send(value);
        MaybeAsync::ready(())
    }
}

fn u16_at(b: &[u8], i: usize) -> u16 {
    ((b[i] as u16) << 8) | b[i + 1] as u16
}

fn result_name<T>(r: Result<T, RequestError>) -> String {
    match r {
        Ok(_) => "ok".to_string(),
        Err(RequestError::NoConnection) => "noconn".to_string(),
        Err(RequestError::Exception(ex)) => format!("ex{}", u8::from(ex)),
        Err(_) => "err".to_string(),
    }
}

async fn request(channel: &mut Channel, adu: &[u8]) -> String {
    let unit = UnitId::new(adu[6]);
    let pdu = &adu[7..];
    let param = RequestParam::new(unit, Duration::from_millis(700));
    let range = |i: usize| AddressRange::try_from(u16_at(pdu, i), u16_at(pdu, i + 2)).expect("valid range");
    match pdu[0] {
        1 => result_name(channel.read_coils(param, range(1)).await),
        2 => result_name(channel.read_discrete_inputs(param, range(1)).await),
        3 => result_name(channel.read_holding_registers(param, range(1)).await),
        4 => result_name(channel.read_input_registers(param, range(1)).await),
        5 => result_name(channel.write_single_coil(param, Indexed::new(u16_at(pdu, 1), u16_at(pdu, 3) == 0xFF00)).await),
        6 => result_name(channel.write_single_register(param, Indexed::new(u16_at(pdu, 1), u16_at(pdu, 3))).await),
        15 => {
            let n = u16_at(pdu, 3) as usize;
            let bits: Vec<bool> = (0..n).map(|k| pdu[6 + k / 8] & (1 << (k % 8)) != 0).collect();
            result_name(channel.write_multiple_coils(param, WriteMultiple::from(u16_at(pdu, 1), bits).expect("valid write")).await)
        }
        16 => {
            let n = u16_at(pdu, 3) as usize;
            let regs: Vec<u16> = (0..n).map(|k| u16_at(pdu, 6 + 2 * k)).collect();
            result_name(channel.write_multiple_registers(param, WriteMultiple::from(u16_at(pdu, 1), regs).expect("valid write")).await)
        }
        x => panic!("function code {x} cannot be sent through the client API"),
    }
}

fn run_case(line: &str, ca: &str) -> String {
    let (stem, rest) = line.trim().split_once('|').expect("<stem>|<server line>");
    let f: Vec<&str> = rest.split('|').collect();
    assert!(f.len() == 4 && f[0] == "tcp" && f[2] != "none", "server_tls_peer: tcp with an authorization policy");
    let log: Log = Arc::new(Mutex::new(Vec::new()));
    let map = parse_units(f[1], &log);
    let a: Vec<&str> = f[2].split(':').collect();
    let policy = match a[0] {
        "ro" => Policy::Inner(ReadOnlyAuthorizationHandler::create()),
        "deny" => Policy::Inner(DefaultAuth.wrap()),
        "hash" => Policy::Hash(a[2].parse().expect("seed"), a[3].parse().expect("pct")),
        x => panic!("bad policy {x}"),
    };
    let auth: Arc<dyn AuthorizationHandler> = Arc::new(LoggedAuth { policy, log: log.clone() });
    let frames: Vec<Vec<u8>> = if f[3] == "-" { Vec::new() } else { f[3].split(',').map(unhex).collect() };
    let d = Path::new(ca);
    let scfg = match TlsServerConfig::new(&d.join("ca_cert.pem"), &d.join("server_cert.pem"), &d.join("server_key.pem"), None, MinTlsVersion::V1_2, CertificateMode::AuthorityBased) {
        Ok(x) => x,
        Err(_) => return "-|-|CONFIG".to_string(),
    };
    let ccfg = match TlsClientConfig::full_pki(Some("test.com".to_string()), &d.join("ca_cert.pem"), &d.join(format!("{stem}_cert.pem")), &d.join(format!("{stem}_key.pem")), None, MinTlsVersion::V1_2) {
        Ok(x) => x,
        Err(_) => return "-|-|CONFIG".to_string(),
    };
    let rt = tokio::runtime::Builder::new_multi_thread().worker_threads(2).enable_all().build().unwrap();
    let (results, end) = rt.block_on(async move {
        let mut server = None;
        for _ in 0..20 {
            let port = {
                let l = std::net::TcpListener::bind((Ipv4Addr::LOCALHOST, 0)).unwrap();
                l.local_addr().unwrap().port()
            };
            let addr = SocketAddr::from((Ipv4Addr::LOCALHOST, port));
            if let Ok(h) = spawn_tls_server_task_with_authz(1, addr, map.clone(), auth.clone(), scfg.clone(), AddressFilter::Any, DecodeLevel::nothing()).await {
                server = Some((h, addr));
                break;
            }
        }
        let (_handle, addr) = match server {
            Some(x) => x,
            None => return (Vec::new(), "NOCONNECT"),
        };
        let (tx, mut rx) = tokio::sync::mpsc::unbounded_channel();
        let mut channel = spawn_tls_client_task(
            HostAddr::ip(addr.ip(), addr.port()),
            4,
            doubling_retry_strategy(Duration::from_secs(60), Duration::from_secs(60)),
            ccfg,
            DecodeLevel::nothing(),
            Some(Box::new(StateListener { tx })),
        );
        if channel.enable().await.is_err() {
            return (Vec::new(), "NOCONNECT");
        }
        // the verdict of the handshake as the client sees it
        let mut connected = false;
        while let Ok(Some(st)) = tokio::time::timeout(Duration::from_secs(8), rx.recv()).await {
            match st {
                ClientState::Connected => {
                    connected = true;
                    break;
                }
                ClientState::WaitAfterFailedConnect(_) => break,
                _ => {}
            }
        }
        let mut results = Vec::new();
        // (TLS 1.3: the client may see its handshake complete before the server has judged the client certificate;
        // the requests are sent either way, a refused peer gets no answer)
        for fr in &frames {
            results.push(request(&mut channel, fr).await);
        }
        (results, if connected { "done" } else { "REFUSED" })
    });
    let log = compress(&log.lock().unwrap());
    format!(
        "{}|{}|{}",
        if results.is_empty() { "-".to_string() } else { results.join(",") },
        if log.is_empty() { "-".to_string() } else { log.join(";") },
        end
    )
}

pub fn main(args: &[String]) -> i32 {
    crate::util::quiet_panics();
    // a dependency (sfio-rustls-config 0.4.0, server.rs) prints a debug line to stdout on every
    // handshake; keep the result channel clean: results go to a duplicate of the original stdout,
    // fd 1 itself is pointed at /dev/null
    let out_fd = unsafe { libc::dup(1) };
    unsafe {
        let null = libc::open(b"/dev/null\0".as_ptr() as *const libc::c_char, libc::O_WRONLY);
        libc::dup2(null, 1);
    }
    let emit = move |s: String| {
        let line = format!("{s}\n");
        unsafe {
            libc::write(out_fd, line.as_ptr() as *const libc::c_void, line.len());
        }
    };
    let certs = args.first().cloned().unwrap_or_else(|| "/verif/certs/ca2".to_string());
    for line in crate::util::stdin_lines() {
        let l = line.clone();
        let c = certs.clone();
        match std::panic::catch_unwind(move || run_case(&l, &c)) {
            Ok(s) => emit(s),
            Err(_) => emit("PANIC".to_string()),
        }
    }
    0
}
