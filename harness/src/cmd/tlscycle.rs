//! C13 for TLS channels: the REAL `spawn_tls_client_task` on loopback with a recording Listener that holds the task
//! at every `Connecting`, against scripted peers; the whole listener path is reported.
//!
//! input line:  <dir>:<otherdir> <min_ms> <max_ms> <script>
//!   <dir> holds ca_cert.pem client_cert.pem client_key.pem server_cert.pem server_key.pem, <otherdir> the server
//!   certificate of ANOTHER authority
//!   script, one item per connect attempt:
//!     r   the port is closed (connection refused)
//!     c   the peer accepts the TCP connection and closes it at once (the handshake fails)
//!     w   a real rodbus TLS server whose certificate the client must refuse (the handshake fails)
//!     h   a real rodbus TLS server the client accepts: Connected; then the server is stopped (the connection is lost)
//!     a   like h, and a read request is served through the connection before the server is stopped
//!     tN  the peer accepts, reads the ClientHello and then sends nothing: the handshake is parked; after 600 ms the
//!         peer closes (the handshake fails)
//!     tQ  like tN, and while the handshake is parked a read request is made (it must fail with NoConnection
//!         before the peer closes)
//!     tD  like tN, and while the handshake is parked the channel is disabled; once Disabled is announced (or after
//!         600 ms) the peer closes and the channel is enabled again
//!     tS  like tN, and while the handshake is parked the channel is shut down; the scenario ends here
//!   a script without tS is continued with one: the attempt after the last wait meets a silent peer and the channel is
//!   shut down while that handshake is pending.
//! output line:  <listener path>|<request results>|<end>
//!   listener path: lD lC lN lF<ns> lW<ns> lS (Disabled Connecting Connected WaitAfterFailedConnect
//!     WaitAfterDisconnect Shutdown), ' '-separated, everything the listener was told, in order
//!   request results, one per a / tQ item: ok | NoConnection@parked | NoConnection@late | <other>
//!   end: done = after the shutdown the listener was told Shutdown and a request on the handle fails with Shutdown
use std::net::{Ipv4Addr, SocketAddr};
use std::path::Path;
use std::time::{Duration, Instant};

use rodbus::client::*;
use rodbus::*;
use tokio::io::AsyncReadExt;
use tokio::net::TcpListener;
use tokio::sync::mpsc;

struct Gate {
    events: mpsc::UnboundedSender<ClientState>,
    permits: std::sync::Arc<tokio::sync::Mutex<mpsc::Receiver<()>>>,
}

impl Listener<ClientState> for Gate {
    fn update(&mut self, value: ClientState) -> MaybeAsync<()> {
        let _ = self.events.send(value);
        if value == ClientState::Connecting {
            let permits = self.permits.clone();
            MaybeAsync::asynchronous(async move {
                let _ = permits.lock().await.recv().await;
            })
        } else {
            MaybeAsync::ready(())
        }
    }
}

struct Handler;
impl rodbus::server::RequestHandler for Handler {
    fn read_holding_register(&self, _address: u16) -> Result<u16, ExceptionCode> {
        Ok(7)
    }
}

fn token(s: &ClientState) -> String {
    match s {
        ClientState::Disabled => "lD".to_string(),
        ClientState::Connecting => "lC".to_string(),
        ClientState::Connected => "lN".to_string(),
        ClientState::WaitAfterFailedConnect(d) => format!("lF{}", d.as_nanos()),
        ClientState::WaitAfterDisconnect(d) => format!("lW{}", d.as_nanos()),
        ClientState::Shutdown => "lS".to_string(),
    }
}

const PARK: Duration = Duration::from_millis(600);

struct Obs {
    rx: mpsc::UnboundedReceiver<ClientState>,
    log: Vec<ClientState>,
}

impl Obs {
    /// record notifications until one satisfies `stop` (true) or the time is over (false)
    async fn until(&mut self, limit: Duration, stop: impl Fn(&ClientState) -> bool) -> bool {
        let end = Instant::now() + limit;
        loop {
            let left = end.saturating_duration_since(Instant::now());
            match tokio::time::timeout(left, self.rx.recv()).await {
                Ok(Some(s)) => {
                    self.log.push(s);
                    if stop(&s) {
                        return true;
                    }
                }
                _ => return false,
            }
        }
    }
}

async fn bind(addr: SocketAddr) -> Option<TcpListener> {
    for _ in 0..50 {
        if let Ok(l) = TcpListener::bind(addr).await {
            return Some(l);
        }
        tokio::time::sleep(Duration::from_millis(10)).await;
    }
    None
}

async fn scenario(line: String, ip: Ipv4Addr) -> String {
    let parts: Vec<&str> = line.split_whitespace().collect();
    if parts.len() < 4 {
        return "BADLINE".to_string();
    }
    let Some((good, other)) = parts[0].split_once(':') else { return "BADLINE".to_string() };
    let min = Duration::from_millis(parts[1].parse().unwrap_or(20));
    let max = Duration::from_millis(parts[2].parse().unwrap_or(40));
    let mut items: Vec<String> = Vec::new();
    let mut chars = parts[3].chars();
    while let Some(c) = chars.next() {
        if c == 't' {
            items.push(format!("t{}", chars.next().unwrap_or('N')));
        } else {
            items.push(c.to_string());
        }
    }
    // every scenario ends with a shutdown while a handshake is pending: the end of the path does not depend on
    // whether a refused connect or the queued shutdown is noticed first
    if !items.iter().any(|i| i == "tS") {
        items.push("tS".to_string());
    }
    let port = std::net::TcpListener::bind((ip, 0)).unwrap().local_addr().unwrap().port();
    let addr = SocketAddr::from((ip, port));
    let (ev_tx, ev_rx) = mpsc::unbounded_channel();
    let (permit_tx, permit_rx) = mpsc::channel::<()>(1);
    let gate = Gate { events: ev_tx, permits: std::sync::Arc::new(tokio::sync::Mutex::new(permit_rx)) };
    let cfg = match TlsClientConfig::full_pki(
        Some("test.com".to_string()),
        &Path::new(good).join("ca_cert.pem"),
        &Path::new(good).join("client_cert.pem"),
        &Path::new(good).join("client_key.pem"),
        None,
        MinTlsVersion::V1_2,
    ) {
        Ok(c) => c,
        Err(e) => return format!("CONFIG:{e}"),
    };
    let channel = spawn_tls_client_task(HostAddr::ip(std::net::IpAddr::V4(ip), port), 4, doubling_retry_strategy(min, max), cfg, DecodeLevel::nothing(), Some(Box::new(gate)));
    let mut obs = Obs { rx: ev_rx, log: Vec::new() };
    let _ = channel.enable().await;
    let limit = max + Duration::from_secs(4);
    let mut reqs: Vec<String> = Vec::new();
    let mut shut = false;
    let read = |ch: Channel, timeout: Duration| async move {
        let p = RequestParam::new(UnitId::new(1), timeout);
        ch.read_holding_registers(p, AddressRange::try_from(0, 1).unwrap()).await
    };
    for item in items.iter() {
        if !obs.until(limit, |s| *s == ClientState::Connecting).await {
            return format!("NOCONNECTING:{}", obs.log.iter().map(token).collect::<Vec<_>>().join(" "));
        }
        let is_wait = |s: &ClientState| matches!(s, ClientState::WaitAfterFailedConnect(_) | ClientState::WaitAfterDisconnect(_));
        match item.as_str() {
            "r" => {
                let _ = permit_tx.send(()).await;
            }
            "w" | "h" | "a" => {
                let d = Path::new(if item == "w" { other } else { good });
                let scfg = match rodbus::server::TlsServerConfig::new(&d.join("ca_cert.pem"), &d.join("server_cert.pem"), &d.join("server_key.pem"), None, MinTlsVersion::V1_2, CertificateMode::AuthorityBased) {
                    Ok(c) => c,
                    Err(e) => return format!("CONFIG:{e}"),
                };
                let mut server = None;
                for _ in 0..50 {
                    let map = rodbus::server::ServerHandlerMap::single(UnitId::new(1), rodbus::server::RequestHandler::wrap(Handler));
                    match rodbus::server::spawn_tls_server_task(2, addr, map, scfg.clone(), rodbus::server::AddressFilter::Any, DecodeLevel::nothing()).await {
                        Ok(h) => {
                            server = Some(h);
                            break;
                        }
                        Err(_) => tokio::time::sleep(Duration::from_millis(10)).await,
                    }
                }
                if server.is_none() {
                    return "NOBIND".to_string();
                }
                let _ = permit_tx.send(()).await;
                // the verdict of the handshake: Connected, or a wait
                if !obs.until(limit, |s| *s == ClientState::Connected || is_wait(s)).await {
                    return format!("NOVERDICT:{}", obs.log.iter().map(token).collect::<Vec<_>>().join(" "));
                }
                if item == "a" {
                    reqs.push(match tokio::time::timeout(Duration::from_secs(5), read(channel.clone(), Duration::from_secs(3))).await {
                        Ok(Ok(v)) if v.len() == 1 && v[0].value == 7 => "ok".to_string(),
                        Ok(Ok(_)) => "badvalue".to_string(),
                        Ok(Err(e)) => format!("{e:?}").replace(' ', ""),
                        Err(_) => "pending".to_string(),
                    });
                }
                // stopping the server ends its sessions: the connection is lost (if there was one)
                drop(server);
            }
            "c" => {
                let Some(l) = bind(addr).await else { return "NOBIND".to_string() };
                let _ = permit_tx.send(()).await;
                match tokio::time::timeout(Duration::from_secs(3), l.accept()).await {
                    Ok(Ok((sock, _))) => drop(sock),
                    _ => return "NOACCEPT".to_string(),
                }
            }
            "tN" | "tQ" | "tD" | "tS" => {
                let Some(l) = bind(addr).await else { return "NOBIND".to_string() };
                let _ = permit_tx.send(()).await;
                let mut sock = match tokio::time::timeout(Duration::from_secs(3), l.accept()).await {
                    Ok(Ok((sock, _))) => sock,
                    _ => return "NOACCEPT".to_string(),
                };
                drop(l);
                // the ClientHello has arrived: the client is past the TCP connect and inside its handshake
                let mut hello = [0u8; 5];
                if tokio::time::timeout(Duration::from_secs(3), sock.read_exact(&mut hello)).await.is_err() || hello[0] != 0x16 {
                    return "NOHELLO".to_string();
                }
                tokio::time::sleep(Duration::from_millis(30)).await;
                match item.as_str() {
                    "tQ" => {
                        let started = Instant::now();
                        let ch = channel.clone();
                        let mut req = tokio::spawn(read(ch, Duration::from_secs(5)));
                        let early = tokio::time::timeout(PARK, &mut req).await;
                        let parked_for = started.elapsed();
                        // whatever was announced meanwhile
                        let _ = obs.until(PARK.saturating_sub(parked_for), |_| false).await;
                        drop(sock);
                        let res = match early {
                            Ok(r) => Some(r),
                            Err(_) => tokio::time::timeout(Duration::from_secs(8), &mut req).await.ok(),
                        };
                        let when = if early_done(parked_for) { "parked" } else { "late" };
                        reqs.push(match res {
                            Some(Ok(Err(RequestError::NoConnection))) => format!("NoConnection@{when}"),
                            Some(Ok(Ok(_))) => "ok".to_string(),
                            Some(Ok(Err(e))) => format!("{e:?}@{when}").replace(' ', ""),
                            _ => "pending".to_string(),
                        });
                    }
                    "tD" => {
                        let _ = channel.disable().await;
                        let _ = obs.until(PARK, |s| *s == ClientState::Disabled).await;
                        drop(sock);
                        // (when the disable was not honoured while parked, the failed handshake and then Disabled follow)
                        if obs.log.last() != Some(&ClientState::Disabled) {
                            let _ = obs.until(limit, |s| *s == ClientState::Disabled).await;
                        }
                        let _ = channel.enable().await;
                    }
                    "tS" => {
                        let _ = channel.shutdown().await;
                        shut = true;
                        let _ = obs.until(PARK, |s| *s == ClientState::Shutdown).await;
                        drop(sock);
                    }
                    _ => {
                        let _ = obs.until(PARK, |_| false).await;
                        drop(sock);
                    }
                }
            }
            _ => return "BADSCRIPT".to_string(),
        }
        if shut {
            break;
        }
    }
    if !shut {
        // the wait that follows the last attempt (not for a script that ends with tD: the channel was enabled again
        // and is connecting), then shutdown
        let _ = obs.until(limit, |s| *s == ClientState::Connecting).await;
        let _ = channel.shutdown().await;
    }
    let _ = permit_tx.send(()).await;
    let told = obs.until(Duration::from_secs(5), |s| *s == ClientState::Shutdown).await || obs.log.last() == Some(&ClientState::Shutdown);
    // anything announced after Shutdown
    let _ = obs.until(Duration::from_millis(50), |_| false).await;
    let after = match tokio::time::timeout(Duration::from_secs(3), read(channel.clone(), Duration::from_secs(1))).await {
        Ok(Err(RequestError::Shutdown)) => true,
        _ => false,
    };
    let path: Vec<String> = obs.log.iter().map(token).collect();
    format!("{}|{}|{}", path.join(" "), reqs.join(" "), if told && after { "done" } else if told { "told-but-handle-alive" } else { "not-ended" })
}

fn early_done(parked_for: Duration) -> bool {
    parked_for < PARK
}

pub fn main(_args: &[String]) -> i32 {
    crate::util::quiet_panics();
    // sfio-rustls-config println!s on every client certificate verification (the in-process TLS servers): keep the
    // result channel clean
    let mut result_out: std::fs::File = unsafe {
        use std::os::fd::FromRawFd;
        let saved = libc::dup(1);
        libc::dup2(2, 1);
        std::fs::File::from_raw_fd(saved)
    };
    let lines: Vec<String> = crate::util::stdin_lines().collect();
    let rt = tokio::runtime::Builder::new_multi_thread().worker_threads(4).enable_all().build().unwrap();
    let pid = std::process::id();
    let results: Vec<String> = rt.block_on(async move {
        let mut handles = Vec::new();
        for (n, line) in lines.into_iter().enumerate() {
            let ip = Ipv4Addr::new(127, 1 + (pid % 200) as u8, (n / 250 % 250) as u8, (n % 250 + 1) as u8);
            handles.push(tokio::spawn(scenario(line, ip)));
        }
        let mut res = Vec::new();
        for h in handles {
            res.push(h.await.unwrap_or_else(|_| "PANIC".to_string()));
        }
        res
    });
    for r in results {
        use std::io::Write;
        let _ = writeln!(result_out, "{r}");
    }
    0
}
