//! Shared plumbing for the C16/C18/C19 subcommands (C ABI called through the rlib, loopback helpers).
//! Not a subcommand of its own: `verif-harness p5_common` only prints this note.
#![allow(dead_code)]
#![allow(clippy::missing_safety_doc)]

pub use rodbus_ffi::ffi;
use std::ffi::CString;
use std::net::{IpAddr, SocketAddr};
use std::os::raw::c_void;
use std::sync::Mutex;
use std::time::Duration;

pub fn main(_args: &[String]) -> i32 {
    eprintln!("p5_common: helper module for filter_parse / filter_live / ffi_* / db_* (no cases)");
    for _ in crate::util::stdin_lines() {
        println!("-");
    }
    0
}

/// A dependency (sfio-rustls-config 0.4.0, server.rs:135) prints `client result: ..` to stdout whenever a TLS
/// server verifies a client certificate. Result lines must be the only thing on stdout, so fd 1 is pointed at
/// /dev/null for the duration of the run and the returned file (a dup of the real stdout) is used for results.
pub fn private_stdout() -> std::fs::File {
    use std::os::unix::io::FromRawFd;
    unsafe {
        let saved = libc::dup(1);
        assert!(saved >= 0, "dup");
        let path = std::ffi::CString::new("/dev/null").unwrap();
        let null = libc::open(path.as_ptr(), libc::O_WRONLY);
        assert!(null >= 0, "open /dev/null");
        libc::dup2(null, 1);
        libc::close(null);
        std::fs::File::from_raw_fd(saved)
    }
}

pub fn cstr(s: &str) -> CString {
    CString::new(s).expect("interior NUL")
}

/// a port that was free a moment ago on `ip` (the rodbus API offers no port 0: the caller retries on bind
/// failure). Ports are drawn from 10000..32000, below the kernel's ephemeral range, so that thousands of
/// short-lived test connections (TIME_WAIT) cannot exhaust what is handed out here.
pub fn free_port(ip: &str) -> u16 {
    use std::sync::atomic::{AtomicU64, Ordering};
    static STATE: AtomicU64 = AtomicU64::new(0);
    let addr: IpAddr = ip.parse().expect("ip");
    let seed = std::time::SystemTime::now().duration_since(std::time::UNIX_EPOCH).map(|d| d.as_nanos() as u64).unwrap_or(1)
        ^ ((std::process::id() as u64) << 32);
    for _ in 0..200 {
        let k = STATE.fetch_add(0x9E37_79B9_7F4A_7C15, Ordering::Relaxed).wrapping_add(seed);
        // splitmix64
        let mut z = k;
        z = (z ^ (z >> 30)).wrapping_mul(0xBF58_476D_1CE4_E5B9);
        z = (z ^ (z >> 27)).wrapping_mul(0x94D0_49BB_1331_11EB);
        z ^= z >> 31;
        let port = 10000 + (z % 22000) as u16;
        if std::net::TcpListener::bind(SocketAddr::new(addr, port)).is_ok() {
            return port;
        }
    }
    // last resort: let the kernel choose
    let l = std::net::TcpListener::bind(SocketAddr::new(addr, 0)).expect("bind port 0");
    l.local_addr().unwrap().port()
}

/// a loopback port on which nothing listens and which nobody else can bind while the guard lives
/// (a bound, non-listening socket: connects are refused)
pub struct ClosedPort {
    fd: i32,
    pub port: u16,
}

impl ClosedPort {
    pub fn new() -> ClosedPort {
        unsafe {
            let fd = libc::socket(libc::AF_INET, libc::SOCK_STREAM, 0);
            assert!(fd >= 0, "socket");
            let mut addr: libc::sockaddr_in = std::mem::zeroed();
            addr.sin_family = libc::AF_INET as libc::sa_family_t;
            addr.sin_port = 0;
            addr.sin_addr.s_addr = u32::from_ne_bytes([127, 0, 0, 1]);
            let rc = libc::bind(fd, &addr as *const _ as *const libc::sockaddr, std::mem::size_of::<libc::sockaddr_in>() as u32);
            assert_eq!(rc, 0, "bind");
            let mut len = std::mem::size_of::<libc::sockaddr_in>() as u32;
            let rc = libc::getsockname(fd, &mut addr as *mut _ as *mut libc::sockaddr, &mut len);
            assert_eq!(rc, 0, "getsockname");
            ClosedPort {
                fd,
                port: u16::from_be(addr.sin_port),
            }
        }
    }
}

impl ClosedPort {
    /// start listening on the very socket that kept the port closed
    pub fn into_listener(self) -> std::net::TcpListener {
        use std::os::unix::io::FromRawFd;
        unsafe {
            let rc = libc::listen(self.fd, 16);
            assert_eq!(rc, 0, "listen");
            let l = std::net::TcpListener::from_raw_fd(self.fd);
            std::mem::forget(self);
            l
        }
    }
}

impl Drop for ClosedPort {
    fn drop(&mut self) {
        unsafe {
            libc::close(self.fd);
        }
    }
}

pub fn decode_nothing() -> ffi::DecodeLevel {
    ffi::DecodeLevelFields {
        app: ffi::AppDecodeLevel::Nothing,
        frame: ffi::FrameDecodeLevel::Nothing,
        physical: ffi::PhysDecodeLevel::Nothing,
    }
    .into()
}

pub struct FfiRuntime(pub *mut rodbus_ffi::Runtime);
unsafe impl Send for FfiRuntime {}
unsafe impl Sync for FfiRuntime {}

pub fn ffi_runtime(threads: u16) -> FfiRuntime {
    let mut out: *mut rodbus_ffi::Runtime = std::ptr::null_mut();
    let rc = unsafe {
        ffi::rodbus_runtime_create(
            ffi::RuntimeConfig {
                num_core_threads: threads,
            },
            &mut out,
        )
    };
    assert_eq!(rc, 0, "rodbus_runtime_create");
    FfiRuntime(out)
}

/// a context object handed to C callbacks as `ctx`; never freed (on_destroy only counts)
pub fn leak_ctx<T>(value: T) -> (&'static Mutex<T>, *mut c_void) {
    let b: &'static Mutex<T> = Box::leak(Box::new(Mutex::new(value)));
    (b, b as *const Mutex<T> as *mut c_void)
}

pub unsafe fn ctx_ref<'a, T>(ctx: *mut c_void) -> &'a Mutex<T> {
    &*(ctx as *const Mutex<T>)
}

pub fn param_error_name(rc: i32) -> String {
    const NAMES: &[&str] = &[
        "Ok",
        "NoSupport",
        "NullParameter",
        "LoggingAlreadyConfigured",
        "RuntimeCreationFailure",
        "RuntimeDestroyed",
        "RuntimeCannotBlockWithinAsync",
        "InvalidIpAddress",
        "InvalidRange",
        "InvalidRequest",
        "InvalidIndex",
        "ServerBindError",
        "InvalidUnitId",
        "InvalidPeerCertificate",
        "InvalidLocalCertificate",
        "InvalidPrivateKey",
        "InvalidDnsName",
        "BadTlsConfig",
        "Shutdown",
        "InvalidUtf8",
        "TooManyRequests",
    ];
    // cross-check the hand-written table against the generated enum on a few anchor values
    debug_assert_eq!(ffi::ParamError::TooManyRequests as i32, 20);
    debug_assert_eq!(ffi::ParamError::InvalidIndex as i32, 10);
    debug_assert_eq!(ffi::ParamError::Shutdown as i32, 18);
    NAMES
        .get(rc as usize)
        .map(|s| s.to_string())
        .unwrap_or_else(|| format!("ParamError#{rc}"))
}

// ------------------------------------------------------------------------------------------------
// C-ABI server pieces

pub extern "C" fn noop_destroy(_ctx: *mut c_void) {}

pub fn write_result(success: bool, exception: ffi::ModbusException, raw: u8) -> ffi::WriteResult {
    ffi::WriteResultFields {
        success,
        exception,
        raw_exception: raw,
    }
    .into()
}

extern "C" fn wh_coil(_i: u16, _v: bool, _db: *mut rodbus_ffi::Database, _ctx: *mut c_void) -> ffi::WriteResult {
    write_result(true, ffi::ModbusException::Unknown, 0)
}
extern "C" fn wh_reg(_i: u16, _v: u16, _db: *mut rodbus_ffi::Database, _ctx: *mut c_void) -> ffi::WriteResult {
    write_result(true, ffi::ModbusException::Unknown, 0)
}
extern "C" fn wh_coils(_s: u16, _it: *mut rodbus_ffi::BitValueIterator, _db: *mut rodbus_ffi::Database, _ctx: *mut c_void) -> ffi::WriteResult {
    write_result(true, ffi::ModbusException::Unknown, 0)
}
extern "C" fn wh_regs(_s: u16, _it: *mut rodbus_ffi::RegisterValueIterator, _db: *mut rodbus_ffi::Database, _ctx: *mut c_void) -> ffi::WriteResult {
    write_result(true, ffi::ModbusException::Unknown, 0)
}

/// a write handler that accepts everything and changes nothing
pub fn accepting_write_handler() -> ffi::WriteHandler {
    ffi::WriteHandler {
        write_single_coil: Some(wh_coil),
        write_single_register: Some(wh_reg),
        write_multiple_coils: Some(wh_coils),
        write_multiple_registers: Some(wh_regs),
        on_destroy: Some(noop_destroy),
        ctx: std::ptr::null_mut(),
    }
}

extern "C" fn db_init_10(db: *mut rodbus_ffi::Database, _ctx: *mut c_void) {
    unsafe {
        for i in 0..10u16 {
            ffi::rodbus_database_add_coil(db, i, false);
            ffi::rodbus_database_add_discrete_input(db, i, false);
            ffi::rodbus_database_add_holding_register(db, i, i);
            ffi::rodbus_database_add_input_register(db, i, i);
        }
    }
}

/// device map with unit 1: ten points of each type (holding/input register i = i)
pub fn simple_device_map() -> *mut rodbus_ffi::DeviceMap {
    unsafe {
        let map = ffi::rodbus_device_map_create();
        let ok = ffi::rodbus_device_map_add_endpoint(
            map,
            1,
            accepting_write_handler(),
            ffi::DatabaseCallback {
                callback: Some(db_init_10),
                on_destroy: Some(noop_destroy),
                ctx: std::ptr::null_mut(),
            },
        );
        assert!(ok);
        map
    }
}

// ------------------------------------------------------------------------------------------------
// TLS material of the repository under test

pub struct TlsPaths {
    pub ca: CString,
    pub server_cert: CString,
    pub server_key: CString,
    pub client_cert: CString,
    pub client_key: CString,
    pub empty: CString,
}

pub fn tls_paths(repo: &str) -> TlsPaths {
    let d = format!("{repo}/certs/ca_chain");
    TlsPaths {
        ca: cstr(&format!("{d}/ca_cert.pem")),
        server_cert: cstr(&format!("{d}/server_cert.pem")),
        server_key: cstr(&format!("{d}/server_key.pem")),
        client_cert: cstr(&format!("{d}/client_cert.pem")),
        client_key: cstr(&format!("{d}/client_key.pem")),
        empty: cstr(""),
    }
}

pub fn ffi_tls_server_config(p: &TlsPaths) -> ffi::TlsServerConfig {
    ffi::TlsServerConfig {
        peer_cert_path: p.ca.as_ptr(),
        local_cert_path: p.server_cert.as_ptr(),
        private_key_path: p.server_key.as_ptr(),
        password: p.empty.as_ptr(),
        min_tls_version: ffi::MinTlsVersion::V12.into(),
        certificate_mode: ffi::CertificateMode::AuthorityBased.into(),
    }
}

pub fn rust_tls_server_config(repo: &str) -> rodbus::server::TlsServerConfig {
    let d = format!("{repo}/certs/ca_chain");
    rodbus::server::TlsServerConfig::new(
        std::path::Path::new(&format!("{d}/ca_cert.pem")),
        std::path::Path::new(&format!("{d}/server_cert.pem")),
        std::path::Path::new(&format!("{d}/server_key.pem")),
        None,
        rodbus::server::MinTlsVersion::V1_2,
        rodbus::server::CertificateMode::AuthorityBased,
    )
    .expect("tls server config")
}

/// a TLS 1.3 ClientHello (x25519 key share, the three TLS 1.3 suites + two ECDHE 1.2 suites) as one record
pub fn client_hello() -> Vec<u8> {
    fn ext(ty: u16, body: &[u8]) -> Vec<u8> {
        let mut v = vec![(ty >> 8) as u8, ty as u8, (body.len() >> 8) as u8, body.len() as u8];
        v.extend_from_slice(body);
        v
    }
    let mut exts = Vec::new();
    // supported_versions: TLS 1.3, TLS 1.2
    exts.extend(ext(0x002b, &[4, 0x03, 0x04, 0x03, 0x03]));
    // supported_groups: x25519, secp256r1
    exts.extend(ext(0x000a, &[0, 4, 0x00, 0x1d, 0x00, 0x17]));
    // ec_point_formats: uncompressed
    exts.extend(ext(0x000b, &[1, 0]));
    // signature_algorithms
    let sigs: [u16; 9] = [0x0403, 0x0503, 0x0603, 0x0807, 0x0804, 0x0805, 0x0806, 0x0401, 0x0501];
    let mut sb = vec![0, (sigs.len() * 2) as u8];
    for s in sigs {
        sb.push((s >> 8) as u8);
        sb.push(s as u8);
    }
    exts.extend(ext(0x000d, &sb));
    // key_share: x25519, 32 bytes (the u-coordinate 9 = the base point, certainly not of small order)
    let mut ks = vec![0, 36, 0x00, 0x1d, 0, 32];
    let mut point = [0u8; 32];
    point[0] = 9;
    ks.extend_from_slice(&point);
    exts.extend(ext(0x0033, &ks));
    // psk_key_exchange_modes: psk_dhe_ke
    exts.extend(ext(0x002d, &[1, 1]));

    let mut body = vec![0x03, 0x03];
    body.extend((0..32u8).map(|i| i.wrapping_mul(7).wrapping_add(3))); // random
    body.push(32);
    body.extend((0..32u8).map(|i| i.wrapping_mul(5).wrapping_add(1))); // legacy session id
    let suites: [u16; 5] = [0x1301, 0x1302, 0x1303, 0xc02b, 0xc02f];
    body.push(0);
    body.push((suites.len() * 2) as u8);
    for s in suites {
        body.push((s >> 8) as u8);
        body.push(s as u8);
    }
    body.extend([1, 0]); // compression: null
    body.push((exts.len() >> 8) as u8);
    body.push(exts.len() as u8);
    body.extend(exts);

    let mut hs = vec![0x01, 0, (body.len() >> 8) as u8, body.len() as u8];
    hs.extend(body);
    let mut rec = vec![0x16, 0x03, 0x01, (hs.len() >> 8) as u8, hs.len() as u8];
    rec.extend(hs);
    rec
}

// ------------------------------------------------------------------------------------------------
// probing a listening server from a chosen source address

#[derive(Debug, Clone, PartialEq, Eq)]
pub enum Probe {
    /// a Modbus reply / a TLS ServerHello arrived
    Served,
    /// the connection was closed (EOF or reset) before a single byte arrived
    Closed,
    /// the connection stayed open and silent
    OpenSilent,
    /// bytes arrived that are not the expected answer (hex of the first bytes)
    Other(String),
    /// connecting failed
    ConnectError(String),
}

impl Probe {
    pub fn code(&self) -> String {
        match self {
            Probe::Served => "S".into(),
            Probe::Closed => "C".into(),
            Probe::OpenSilent => "O".into(),
            Probe::Other(h) => format!("B{h}"),
            Probe::ConnectError(e) => format!("E:{e}"),
        }
    }
}

/// connect from `src` (port 0) to `dst`, send one Modbus request (or a ClientHello) and classify
pub async fn probe(src: IpAddr, dst: SocketAddr, tls: bool, silence: Duration) -> Probe {
    use tokio::io::{AsyncReadExt, AsyncWriteExt};
    let sock = match src {
        IpAddr::V4(_) => tokio::net::TcpSocket::new_v4(),
        IpAddr::V6(_) => tokio::net::TcpSocket::new_v6(),
    };
    let sock = match sock {
        Ok(s) => s,
        Err(e) => return Probe::ConnectError(format!("socket:{:?}", e.kind())),
    };
    let _ = sock.set_reuseaddr(true); // many probes from few source addresses: do not wait out TIME_WAIT
    if let Err(e) = sock.bind(SocketAddr::new(src, 0)) {
        return Probe::ConnectError(format!("bind:{:?}", e.kind()));
    }
    let mut stream = match tokio::time::timeout(Duration::from_secs(10), sock.connect(dst)).await {
        Ok(Ok(s)) => s,
        Ok(Err(e)) => return Probe::ConnectError(format!("{:?}", e.kind())),
        Err(_) => return Probe::ConnectError("timeout".into()),
    };
    let request: Vec<u8> = if tls {
        client_hello()
    } else {
        // read holding registers, unit 1, start 0, count 1
        vec![0x00, 0x07, 0x00, 0x00, 0x00, 0x06, 0x01, 0x03, 0x00, 0x00, 0x00, 0x01]
    };
    // a write error here means the peer already closed: fall through to the read, which reports it
    let _ = stream.write_all(&request).await;
    let mut buf = [0u8; 512];
    let mut got = Vec::new();
    let need = if tls { 6 } else { 9 };
    loop {
        match tokio::time::timeout(silence, stream.read(&mut buf)).await {
            Err(_) => {
                return if got.is_empty() {
                    Probe::OpenSilent
                } else {
                    Probe::Other(crate::util::hex(&got[..got.len().min(12)]))
                }
            }
            Ok(Ok(0)) | Ok(Err(_)) => {
                return if got.is_empty() {
                    Probe::Closed
                } else {
                    Probe::Other(crate::util::hex(&got[..got.len().min(12)]))
                }
            }
            Ok(Ok(n)) => {
                got.extend_from_slice(&buf[..n]);
                if got.len() >= need {
                    break;
                }
            }
        }
    }
    if tls {
        // handshake record carrying a ServerHello
        if got[0] == 0x16 && got[1] == 0x03 && got[5] == 0x02 {
            Probe::Served
        } else {
            Probe::Other(crate::util::hex(&got[..got.len().min(12)]))
        }
    } else if got[0..2] == [0x00, 0x07] && got[6] == 0x01 && (got[7] == 0x03 || got[7] == 0x83) {
        Probe::Served
    } else {
        Probe::Other(crate::util::hex(&got[..got.len().min(12)]))
    }
}
