//! C16: the wildcard parser, through the Rust API and through the C ABI.
//! input line:  hex of the UTF-8 bytes of the string ("-" = empty string)
//! output line: <rust>|<ffi>
//!   rust = ERR | a.b.c.d   (each field a decimal octet or *)   from WildcardIPv4::from_str
//!   ffi  = ERR:<ParamError> | WC:a.b.c.d | SET:<ip> | ANY            from rodbus_address_filter_create
use super::p5_common::*;
use std::str::FromStr;

fn show_wc(wc: &rodbus::server::WildcardIPv4) -> String {
    // the fields are pub(crate); the derived Debug output exposes them:
    // WildcardIPv4 { b3: Some(172), b2: Some(17), b1: Some(20), b0: None }
    let dbg = format!("{wc:?}");
    let mut out = Vec::new();
    for key in ["b3: ", "b2: ", "b1: ", "b0: "] {
        let i = dbg.find(key).expect("debug format") + key.len();
        let rest = &dbg[i..];
        if rest.starts_with("None") {
            out.push("*".to_string());
        } else if let Some(r) = rest.strip_prefix("Some(") {
            out.push(r[..r.find(')').unwrap()].to_string());
        } else {
            panic!("debug format {dbg}");
        }
    }
    out.join(".")
}

pub fn main(_args: &[String]) -> i32 {
    crate::util::quiet_panics();
    for line in crate::util::stdin_lines() {
        let bytes = crate::util::unhex(&line);
        let res = std::panic::catch_unwind(move || {
            let s = String::from_utf8(bytes).expect("generator produces valid UTF-8");
            let rust = match rodbus::server::WildcardIPv4::from_str(&s) {
                Ok(wc) => show_wc(&wc),
                Err(_) => "ERR".to_string(),
            };
            let ffi_res = if s.contains('\0') {
                "SKIP".to_string()
            } else {
                let c = cstr(&s);
                let mut out: *mut rodbus_ffi::AddressFilter = std::ptr::null_mut();
                let rc = unsafe { ffi::rodbus_address_filter_create(c.as_ptr(), &mut out) };
                if rc != 0 {
                    format!("ERR:{}", param_error_name(rc))
                } else {
                    let r = match unsafe { &*out } {
                        rodbus_ffi::AddressFilter::Any => "ANY".to_string(),
                        rodbus_ffi::AddressFilter::WildcardIpv4(wc) => format!("WC:{}", show_wc(wc)),
                        rodbus_ffi::AddressFilter::AnyOf(set) => {
                            let mut v: Vec<String> = set.iter().map(|x| x.to_string()).collect();
                            v.sort();
                            format!("SET:{}", v.join("+"))
                        }
                    };
                    unsafe { ffi::rodbus_address_filter_destroy(out) };
                    r
                }
            };
            format!("{rust}|{ffi_res}")
        });
        match res {
            Ok(s) => println!("{s}"),
            Err(_) => println!("PANIC"),
        }
    }
    0
}
