//! Consecutive CONNECTIONS of one client channel: the same `ClientSession` (same ClientLoop, same
//! FramedReader, same transaction id counter) is run over a fresh scripted `Wire` per connection.
//! One input line = one case = one fresh `ClientSession` (transaction ids start at 0).
//! args:        [--decode min|max]
//! input line:  F <xchg> <xchg> .. / <xchg> .. / ..       F = T | R; the standalone token `/` separates
//!              the connections
//!   <xchg> = <call>@raw:<hex>(+<hex>)*[/Z|/E]
//!     <call> = K,U,S,C,V[,style]  as in cseq (list values separated by ';'; style f | c | x)
//!     raw:..   the inbound script of cresp: once the request frame is on the wire every chunk is pushed
//!              verbatim, each followed by settle(); `raw:` alone = nothing arrives; then /Z = end of
//!              stream, /E = read error ConnectionReset. The script also runs when the call was rejected.
//!   An exchange with /Z or /E ends its connection: the driver waits (5 s of virtual time at most) for
//!   `run` to return. A connection whose exchanges are exhausted while `run` is still going is ended
//!   with end of stream if another connection follows.
//! output line: the results of the exchanges joined by ';' within a connection (`-` for a connection
//!              without exchanges) and by '|' between the connections
//!   result = OK .. | OKX .. | ERR <flat name> | REJECTED <token> | HUNG | PANIC
//!          | SKIPPED  (`run` had already returned when this exchange of the connection was due)
//!          | STUCK    (the connection never started: `run` of an earlier one did not return within 5 s
//!                      of virtual time, or the session task panicked)
//!   | BADLINE
use std::time::Duration;

use crate::clientdrv::{self as drv, Case, RawEnd, Sent};
use crate::wire::{settle, Wire};
use rodbus::verif::{ClientSession, Framing};
use rodbus::DecodeLevel;
use tokio::sync::mpsc;

/// first transaction id of the session (`tx=<n>` token right after the framing letter; default 0)
static START_TX: std::sync::atomic::AtomicU32 = std::sync::atomic::AtomicU32::new(0);

fn parse_line(line: &str) -> Result<(Framing, Vec<Vec<Case>>), String> {
    let mut tokens = line.split_whitespace();
    let (f, framing) = match tokens.next() {
        Some("T") => ('T', Framing::Tcp),
        Some("R") => ('R', Framing::RtuResponse),
        other => return Err(format!("bad framing {other:?}")),
    };
    let mut tokens = tokens.peekable();
    START_TX.store(0, std::sync::atomic::Ordering::Relaxed);
    if let Some(t) = tokens.peek().and_then(|t| t.strip_prefix("tx=")) {
        let v: u16 = t.parse().map_err(|_| format!("bad tx= token {t:?}"))?;
        START_TX.store(v as u32, std::sync::atomic::Ordering::Relaxed);
        tokens.next();
    }
    let mut conns: Vec<Vec<Case>> = vec![Vec::new()];
    let mut any = false;
    for tok in tokens {
        if tok == "/" {
            conns.push(Vec::new());
            continue;
        }
        let (call, script) = tok.split_once('@').ok_or_else(|| format!("{tok:?}: missing @raw:.."))?;
        if !script.starts_with("raw:") {
            return Err(format!("{tok:?}: the script must be raw:.."));
        }
        let case = drv::parse_call(f, call, Some(script))?;
        conns.last_mut().unwrap().push(case);
        any = true;
    }
    if !any {
        return Err("no exchanges".to_string());
    }
    Ok((framing, conns))
}

/// what became of the `run` of the current connection
enum Ended {
    Returned,
    /// not within 5 s of virtual time
    Stuck,
    /// the session task is gone (it panicked)
    Dead,
}

async fn wait_returned(names: &mut mpsc::UnboundedReceiver<String>) -> Ended {
    match tokio::time::timeout(Duration::from_secs(5), names.recv()).await {
        Ok(Some(_)) => Ended::Returned,
        Ok(None) => Ended::Dead,
        Err(_) => Ended::Stuck,
    }
}

async fn one(framing: Framing, conns: &[Vec<Case>], decode: DecodeLevel) -> String {
    let (channel, mut session) = ClientSession::new(framing, 16, decode, None);
    session.set_next_tx_id(START_TX.load(std::sync::atomic::Ordering::Relaxed) as u16);
    let (wire_tx, mut wire_rx) = mpsc::channel::<Wire>(1);
    let (name_tx, mut names) = mpsc::unbounded_channel::<String>();
    let task = tokio::spawn(async move {
        while let Some(io) = wire_rx.recv().await {
            let name = session.run(Box::new(io)).await;
            if name_tx.send(name).is_err() {
                break;
            }
        }
    });
    let _ = channel.enable().await;

    // no further connection can be started
    let mut dead = false;
    let mut out: Vec<String> = Vec::with_capacity(conns.len());

    for (ci, conn) in conns.iter().enumerate() {
        if conn.is_empty() && dead {
            out.push("-".to_string());
            continue;
        }
        if dead {
            out.push(vec!["STUCK"; conn.len()].join(";"));
            continue;
        }
        let wire = Wire::new();
        if wire_tx.send(wire.clone()).await.is_err() {
            dead = true;
            out.push(if conn.is_empty() { "-".to_string() } else { vec!["STUCK"; conn.len()].join(";") });
            continue;
        }
        let mut running = true;
        let mut results: Vec<String> = Vec::with_capacity(conn.len());
        for case in conn {
            if !running {
                results.push("SKIPPED".to_string());
                continue;
            }
            let from = drv::writes_so_far(&wire);
            let submitted = drv::submit_case(&channel, case);
            let sent = match &submitted {
                Ok(handle) => drv::wait_request_sent(&wire, from, case, handle).await,
                Err(_) => Sent::Finished,
            };
            let rejected = sent == Sent::Finished && drv::written_since(&wire, from).is_empty();
            let raw = case.raw.as_ref().expect("raw script");
            for chunk in &raw.chunks {
                wire.push(chunk);
                settle().await;
            }
            match raw.end {
                RawEnd::Pending => {}
                RawEnd::Eof => wire.set_eof(),
                RawEnd::Error => wire.set_read_error(std::io::ErrorKind::ConnectionReset),
            }
            let mut result = match submitted {
                Ok(handle) => drv::call_result(handle, rejected).await,
                Err(r) => r,
            };
            settle().await;
            // has the connection ended (it must after /Z, /E)?
            let ended = if raw.end != RawEnd::Pending {
                Some(wait_returned(&mut names).await)
            } else {
                match names.try_recv() {
                    Ok(_) => Some(Ended::Returned),
                    Err(mpsc::error::TryRecvError::Disconnected) => Some(Ended::Dead),
                    Err(mpsc::error::TryRecvError::Empty) => None,
                }
            };
            match ended {
                None => {}
                Some(Ended::Returned) => running = false,
                Some(Ended::Stuck) => {
                    running = false;
                    dead = true;
                }
                Some(Ended::Dead) => {
                    running = false;
                    dead = true;
                    result = "PANIC".to_string();
                }
            }
            results.push(result);
        }
        if running && !dead && ci + 1 < conns.len() {
            wire.set_eof();
            match wait_returned(&mut names).await {
                Ended::Returned => {}
                Ended::Stuck | Ended::Dead => dead = true,
            }
        }
        out.push(if results.is_empty() { "-".to_string() } else { results.join(";") });
    }

    task.abort();
    let _ = task.await;
    out.join("|")
}

pub fn main(args: &[String]) -> i32 {
    crate::util::quiet_panics();
    let opts = drv::parse_opts(args);
    let rt = drv::runtime();
    rt.block_on(async {
        for line in crate::util::stdin_lines() {
            let parsed = match std::panic::catch_unwind(|| parse_line(&line)) {
                Ok(Ok(c)) => c,
                Ok(Err(e)) => {
                    eprintln!("cconn: bad line {line:?}: {e}");
                    println!("BADLINE");
                    continue;
                }
                Err(_) => {
                    eprintln!("cconn: panic while parsing {line:?}");
                    println!("BADLINE");
                    continue;
                }
            };
            let s = one(parsed.0, &parsed.1, opts.decode).await;
            println!("{s}");
        }
    });
    0
}
