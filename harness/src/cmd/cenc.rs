//! Client request encoding: a request built through the public API is submitted to the real client
//! loop (persistent session per framing, so the MBAP transaction id advances from case to case) and
//! the bytes it writes are captured. No reply is ever delivered.
//! args:        [--decode min|max]
//! input line:  F K U S C V        (see clientdrv::parse_case; F = T|R, optionally followed by the
//!              submit style: none = Channel futures, c = CallbackSession, x = FfiChannel)
//! output line: <result> <wire>
//!   result: SENT (transmitted, then ResponseTimeout) | OK? | <flat error name> | PANIC | BADLINE
//!           style x, synchronous call failed: <ChannelFull|ChannelClosed|range error>/<cb> where <cb>
//!           is the flat error name the callback received, `-` if it was not invoked
//!           styles c/x: LOST (callback dropped uncalled) | HUNG (no callback within 3 s)
//!   wire:   uppercase hex of each write joined by '+', '-' if nothing was written
use crate::clientdrv::{self as drv, Build, Case, Done, Driver};
use rodbus::RequestError;

async fn one(driver: &mut Driver, case: &Case) -> String {
    let prepared = match drv::build(case) {
        Build::Ready(p) => p,
        Build::Rejected(name) => return format!("{name} -"),
        Build::Panic => return "PANIC -".to_string(),
    };
    let sess = driver.session(case).await;
    let wire = sess.wire.clone();
    wire.take_out();
    let handle = drv::submit(sess.channel.clone(), drv::param(case), prepared, case.style);
    let res = handle.await;
    let session_panicked = driver.after_case(case.rtu, false).await;
    let out = drv::format_writes(&wire.take_out());
    let result = match res {
        _ if session_panicked => "PANIC".to_string(),
        Err(e) if e.is_panic() => "PANIC".to_string(),
        Err(_) => "CANCELLED".to_string(),
        Ok(Done::Result(Err(RequestError::ResponseTimeout))) => "SENT".to_string(),
        Ok(d) => match drv::done_result(d) {
            Ok(_) => "OK?".to_string(),
            Err(token) => token,
        },
    };
    format!("{result} {out}")
}

pub fn main(args: &[String]) -> i32 {
    crate::util::quiet_panics();
    let opts = drv::parse_opts(args);
    let rt = drv::runtime();
    rt.block_on(async {
        let mut driver = Driver::new(opts.decode);
        for line in crate::util::stdin_lines() {
            let case = match std::panic::catch_unwind(|| drv::parse_case(&line, false)) {
                Ok(Ok(c)) => c,
                Ok(Err(e)) => {
                    eprintln!("cenc: bad line {line:?}: {e}");
                    println!("BADLINE -");
                    continue;
                }
                Err(_) => {
                    eprintln!("cenc: panic while parsing {line:?}");
                    println!("BADLINE -");
                    continue;
                }
            };
            let s = one(&mut driver, &case).await;
            println!("{s}");
        }
    });
    0
}
