//! C05 / C06 / C07: the production FramedReader (ReadBuffer + MbapParser / RtuParser + next_frame)
//! over the scripted in-memory transport.
//!
//! input line:  <tcp|rtureq|rtursp> <stop|resume|cancel> <eof|pending|err> <chunk hex | -> ...
//!   one scripted chunk per read call (truncated to the space the reader offers, the rest stays
//!   at the head); `-` is an empty chunk (a 0-byte read); after the last chunk the source
//!   reports EOF / stays pending forever / fails with ConnectionReset.
//!   stop   = stop calling next_frame at the first error (server session, client connection)
//!   resume = keep calling next_frame after a BadFrame / Internal error (RTU server across a port reopen)
//!   cancel = as stop, but the bytes arrive chunk by chunk and every next_frame call that has to wait is
//!            ABANDONED (its future is dropped, as when another tokio::select! branch fires in
//!            SessionTask::run_one / ClientLoop::poll) and a fresh call is made once the next chunk is there
//! output line: F(<tx|->,<dest>,<bcast 0/1>,<payload hex>) ... then the terminal error class,
//!   exactly as Base/Frame.v `show_run` prints the model's result; PANIC if the reader panicked.
//! optional arguments: --decode min|max; --stats appends `;reads=..;compactions=..;resets=..`
use crate::util::{hex, unhex};
use crate::wire::Wire;
use rodbus::verif::{Framing, Reader};
use rodbus::{DecodeLevel, FrameParseError, RequestError};
use std::future::Future;
use std::task::{Context, Poll, Waker};

pub fn show_frame_error(e: &FrameParseError) -> String {
    match e {
        FrameParseError::MbapLengthZero => "BadFrame:MbapLengthZero".to_string(),
        FrameParseError::FrameLengthTooBig(a, b) => format!("BadFrame:FrameLengthTooBig({a},{b})"),
        FrameParseError::UnknownProtocolId(p) => format!("BadFrame:UnknownProtocolId({p})"),
        FrameParseError::UnknownFunctionCode(f) => format!("BadFrame:UnknownFunctionCode({f})"),
        FrameParseError::CrcValidationFailure(r, x) => format!("BadFrame:Crc({r},{x})"),
    }
}

pub fn show_error(e: &RequestError) -> String {
    match e {
        RequestError::BadFrame(f) => show_frame_error(f),
        RequestError::Internal(_) => "Internal".to_string(),
        RequestError::Io(std::io::ErrorKind::UnexpectedEof) => "Io(UnexpectedEof)".to_string(),
        RequestError::Io(_) => "Io(Other)".to_string(),
        other => format!("Unexpected({other:?})"),
    }
}

pub fn framing_of(s: &str) -> Framing {
    match s {
        "tcp" => Framing::Tcp,
        "rtureq" => Framing::RtuRequest,
        "rtursp" => Framing::RtuResponse,
        _ => panic!("bad framing {s:?}"),
    }
}

fn run_case(line: &str, decode: DecodeLevel, stats: bool) -> String {
    let parts: Vec<&str> = line.split_whitespace().collect();
    let framing = framing_of(parts[0]);
    let (resume, cancel) = match parts[1] {
        "stop" => (false, false),
        "resume" => (true, false),
        "cancel" => (false, true),
        m => panic!("bad mode {m:?}"),
    };
    let wire = Wire::new();
    let chunks: Vec<Vec<u8>> = parts[3..].iter().map(|c| unhex(c)).collect();
    let set_fin = |wire: &Wire| match parts[2] {
        "eof" => wire.set_eof(),
        "err" => wire.set_read_error(std::io::ErrorKind::ConnectionReset),
        "pending" => {}
        f => panic!("bad ending {f:?}"),
    };
    // cancel mode: nothing is there yet; chunks are handed over one by one, each time a call had to be abandoned
    let mut next_chunk = 0;
    let mut fin_set = false;
    if !cancel {
        for c in &chunks {
            wire.push(c);
        }
        next_chunk = chunks.len();
        set_fin(&wire);
        fin_set = true;
    }
    let mut reader = Reader::new(framing, Box::new(wire.clone()));
    let mut out: Vec<String> = Vec::new();
    // every frame and every framing error consumes at least one byte, so a reader that is polled
    // again after errors can deliver at most this many items; more means it is spinning
    let max_items = parts[3..].iter().map(|c| c.len() / 2).sum::<usize>() + 8;
    let waker = Waker::noop();
    let mut cx = Context::from_waker(waker);
    loop {
        // the transport never wakes anybody: one poll either completes the call or it waits forever
        let res = {
            let mut fut = std::pin::pin!(reader.next_frame(decode));
            fut.as_mut().poll(&mut cx)
        };
        if out.len() > max_items {
            out.truncate(6);
            out.push("Wedged".to_string());
            break;
        }
        match res {
            Poll::Pending => {
                // the future of this call is gone (dropped at the end of the block above)
                if next_chunk < chunks.len() {
                    wire.push(&chunks[next_chunk]);
                    next_chunk += 1;
                    continue;
                }
                if !fin_set {
                    set_fin(&wire);
                    fin_set = true;
                    if parts[2] != "pending" {
                        continue;
                    }
                }
                out.push("Pending".to_string());
                break;
            }
            Poll::Ready(Ok(f)) => out.push(format!(
                "F({},{},{},{})",
                f.tx_id.map(|x| x.to_string()).unwrap_or("-".to_string()),
                f.destination,
                f.broadcast as u8,
                hex(&f.payload)
            )),
            Poll::Ready(Err(e)) => {
                let s = show_error(&e);
                let framing_error = matches!(e, RequestError::BadFrame(_) | RequestError::Internal(_));
                if resume && framing_error {
                    out.push(format!("E({s})"));
                } else {
                    out.push(s);
                    break;
                }
            }
        }
    }
    let mut res = out.join(" ");
    if stats {
        // side channel for the input-class measurement (not compared): number of reads, how often
        // read_some compacted the buffer (space offered grew although the buffer was not empty)
        // and how often it was reset because it was empty
        let g = wire.0.lock().unwrap();
        let mut compactions = 0;
        let mut resets = 0;
        let mut small = 0;
        let mut prev_left: Option<usize> = None;
        for (i, off) in g.offered.iter().enumerate() {
            if let Some(left) = prev_left {
                if *off > left {
                    if *off == 260 {
                        resets += 1;
                    } else {
                        compactions += 1;
                        if small == 0 || *off < small {
                            small = *off; // fewest bytes that were consumed when the buffer was exactly full
                        }
                    }
                }
            }
            let delivered = g.delivered.get(i).copied().unwrap_or(0);
            prev_left = Some(off - delivered);
        }
        let offered: Vec<String> = g.offered.iter().map(|x| x.to_string()).collect();
        res.push_str(&format!(
            ";reads={};compactions={};min_compaction={};resets={};offered={}",
            g.offered.len(),
            compactions,
            small,
            resets,
            offered.join(",")
        ));
    }
    res
}

pub fn main(args: &[String]) -> i32 {
    crate::util::quiet_panics();
    let decode = crate::util::decode_arg(args);
    let stats = args.iter().any(|a| a == "--stats");
    for line in crate::util::stdin_lines() {
        let l = line.clone();
        match std::panic::catch_unwind(move || run_case(&l, decode, stats)) {
            Ok(s) => println!("{s}"),
            Err(e) => println!("{}", crate::util::panic_name(&e)),
        }
    }
    0
}
