//! C14: the public retry strategy object.
//! input line:  <min_ns> <max_ns> <ops>      ops over {F,D,R}
//! output line: comma separated values in ns, '-' for reset, or PANIC
use std::time::Duration;

fn dur(ns: u128) -> Duration {
    Duration::new((ns / 1_000_000_000) as u64, (ns % 1_000_000_000) as u32)
}

pub fn main(_args: &[String]) -> i32 {
    crate::util::quiet_panics();
    for line in crate::util::stdin_lines() {
        let parts: Vec<&str> = line.split_whitespace().collect();
        let min: u128 = parts[0].parse().unwrap();
        let max: u128 = parts[1].parse().unwrap();
        let ops = parts.get(2).copied().unwrap_or("").to_string();
        let res = std::panic::catch_unwind(move || {
            let mut s = rodbus::doubling_retry_strategy(dur(min), dur(max));
            let mut out = Vec::new();
            for c in ops.chars() {
                match c {
                    'F' => out.push(s.after_failed_connect().as_nanos().to_string()),
                    'D' => out.push(s.after_disconnect().as_nanos().to_string()),
                    'R' => {
                        s.reset();
                        out.push("-".to_string())
                    }
                    _ => panic!("bad op"),
                }
            }
            out.join(",")
        });
        match res {
            Ok(s) => println!("{s}"),
            Err(_) => println!("PANIC"),
        }
    }
    0
}
