//! C18: the conversion `rodbus_ffi::ffi::RequestError::from(rodbus::RequestError)` called directly, one error value per line.
//! input line: Io <io::ErrorKind name> | Exception <code byte> | Internal | NoConnection | BadFrame | Shutdown | ResponseTimeout |
//!             BadRequest | BadResponse        output: the Debug name of the ffi::RequestError value (or FAIL:<why>)
use rodbus::*;

fn kind_of(name: &str) -> Option<std::io::ErrorKind> {
    use std::io::ErrorKind::*;
    Some(match name {
        "NotFound" => NotFound,
        "PermissionDenied" => PermissionDenied,
        "ConnectionRefused" => ConnectionRefused,
        "ConnectionReset" => ConnectionReset,
        "ConnectionAborted" => ConnectionAborted,
        "NotConnected" => NotConnected,
        "AddrInUse" => AddrInUse,
        "AddrNotAvailable" => AddrNotAvailable,
        "BrokenPipe" => BrokenPipe,
        "AlreadyExists" => AlreadyExists,
        "WouldBlock" => WouldBlock,
        "InvalidInput" => InvalidInput,
        "InvalidData" => InvalidData,
        "TimedOut" => TimedOut,
        "WriteZero" => WriteZero,
        "Interrupted" => Interrupted,
        "Unsupported" => Unsupported,
        "UnexpectedEof" => UnexpectedEof,
        "OutOfMemory" => OutOfMemory,
        "Other" => Other,
        _ => return None,
    })
}

pub fn main(_args: &[String]) -> i32 {
    crate::util::quiet_panics();
    for line in crate::util::stdin_lines() {
        let p: Vec<&str> = line.split_whitespace().collect();
        let err: Option<RequestError> = match (p.first().copied(), p.get(1).copied()) {
            (Some("Io"), Some(k)) => kind_of(k).map(RequestError::Io),
            (Some("Exception"), Some(c)) => c.parse::<u8>().ok().map(|b| RequestError::Exception(ExceptionCode::from(b))),
            (Some("Internal"), _) => Some(RequestError::Internal(InternalError::InsufficientWriteSpace(1, 0))),
            (Some("NoConnection"), _) => Some(RequestError::NoConnection),
            (Some("BadFrame"), _) => Some(RequestError::BadFrame(FrameParseError::MbapLengthZero)),
            (Some("Shutdown"), _) => Some(RequestError::Shutdown),
            (Some("ResponseTimeout"), _) => Some(RequestError::ResponseTimeout),
            (Some("BadRequest"), _) => Some(RequestError::BadRequest(InvalidRequest::CountTooBigForU16(70000))),
            (Some("BadResponse"), _) => Some(RequestError::BadResponse(AduParseError::InsufficientBytes)),
            _ => None,
        };
        match err {
            Some(e) => {
                let r = std::panic::catch_unwind(move || format!("{:?}", rodbus_ffi::ffi::RequestError::from(e)));
                println!("{}", r.unwrap_or_else(|_| "PANIC".into()));
            }
            None => println!("FAIL:syntax"),
        }
    }
    0
}
