//! C05 / C06 (server role): the production SessionTask with MBAP or RTU framing over the scripted
//! transport: requests come in as a chunk schedule, replies and handler calls are observed.
//! The handler serves units 1 and 2: coil/discrete a -> (a % 3 == 0), register a -> a * 31 + 7 (mod 2^16),
//! addresses >= 60000 -> IllegalDataAddress; writes are accepted and counted.
//! input line:  <tcp|rtu> <eof|pending|err> <chunk hex | -> ...
//! output line: calls=<n> replies=<hex,hex,..|-> end=<terminal error class as in `frames`>
//! optional argument: --decode min|max
use crate::util::{hex, unhex};
use crate::wire::Wire;
use rodbus::server::{RequestHandler, ServerHandlerMap, WriteCoils, WriteRegisters};
use rodbus::verif::{run_server_session, Framing};
use rodbus::{DecodeLevel, ExceptionCode, Indexed, UnitId};
use std::sync::atomic::{AtomicUsize, Ordering};
use std::sync::Arc;

struct H {
    calls: Arc<AtomicUsize>,
}
impl H {
    fn bit(&self, a: u16) -> Result<bool, ExceptionCode> {
        self.calls.fetch_add(1, Ordering::SeqCst);
        if a >= 60000 { Err(ExceptionCode::IllegalDataAddress) } else { Ok(a % 3 == 0) }
    }
    fn reg(&self, a: u16) -> Result<u16, ExceptionCode> {
        self.calls.fetch_add(1, Ordering::SeqCst);
        if a >= 60000 { Err(ExceptionCode::IllegalDataAddress) } else { Ok(a.wrapping_mul(31).wrapping_add(7)) }
    }
}
impl RequestHandler for H {
    fn read_coil(&self, a: u16) -> Result<bool, ExceptionCode> { self.bit(a) }
    fn read_discrete_input(&self, a: u16) -> Result<bool, ExceptionCode> { self.bit(a) }
    fn read_holding_register(&self, a: u16) -> Result<u16, ExceptionCode> { self.reg(a) }
    fn read_input_register(&self, a: u16) -> Result<u16, ExceptionCode> { self.reg(a) }
    fn write_single_coil(&mut self, _v: Indexed<bool>) -> Result<(), ExceptionCode> { self.calls.fetch_add(1, Ordering::SeqCst); Ok(()) }
    fn write_single_register(&mut self, _v: Indexed<u16>) -> Result<(), ExceptionCode> { self.calls.fetch_add(1, Ordering::SeqCst); Ok(()) }
    fn write_multiple_coils(&mut self, _v: WriteCoils) -> Result<(), ExceptionCode> { self.calls.fetch_add(1, Ordering::SeqCst); Ok(()) }
    fn write_multiple_registers(&mut self, _v: WriteRegisters) -> Result<(), ExceptionCode> { self.calls.fetch_add(1, Ordering::SeqCst); Ok(()) }
}

async fn run_case(line: String, decode: DecodeLevel) -> String {
    let parts: Vec<&str> = line.split_whitespace().collect();
    let framing = match parts[0] {
        "tcp" => Framing::Tcp,
        "rtu" => Framing::RtuRequest,
        f => panic!("bad framing {f:?}"),
    };
    let wire = Wire::new();
    for c in &parts[2..] {
        wire.push(&unhex(c));
    }
    match parts[1] {
        "eof" => wire.set_eof(),
        "err" => wire.set_read_error(std::io::ErrorKind::ConnectionReset),
        _ => {}
    }
    let calls = Arc::new(AtomicUsize::new(0));
    let mut map = ServerHandlerMap::new();
    map.add(UnitId::new(1), H { calls: calls.clone() }.wrap());
    map.add(UnitId::new(2), H { calls: calls.clone() }.wrap());
    let (_tx, rx) = tokio::sync::mpsc::channel(1);
    let end = tokio::select! {
        e = run_server_session(Box::new(wire.clone()), map, None, framing, decode, rx) => super::frames::show_error(&e),
        _ = async { for _ in 0..20 { crate::wire::settle().await; } } => "Pending".to_string(),
    };
    let out = wire.take_out();
    let replies = if out.is_empty() { "-".to_string() } else { out.iter().map(|r| hex(r)).collect::<Vec<_>>().join(",") };
    format!("calls={} replies={} end={}", calls.load(Ordering::SeqCst), replies, end)
}

pub fn main(args: &[String]) -> i32 {
    crate::util::quiet_panics();
    let decode = crate::util::decode_arg(args);
    for line in crate::util::stdin_lines() {
        let res = std::panic::catch_unwind(move || {
            let rt = tokio::runtime::Builder::new_current_thread().enable_time().start_paused(true).build().unwrap();
            rt.block_on(run_case(line, decode))
        });
        match res {
            Ok(s) => println!("{s}"),
            Err(e) => println!("{}", crate::util::panic_name(&e)),
        }
    }
    0
}
