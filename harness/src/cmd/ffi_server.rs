//! C18 (server half): a C-ABI TCP server whose four write callbacks return a configured WriteResult,
//! driven by a Rust API client over loopback; the same request against a Rust API server whose
//! RequestHandler returns the corresponding Result.
//! input line:  <kind> <cfg> <success 0|1> <exception> <raw> <start> <values>
//!   kind   = coil | register | coils | registers
//!   cfg    = set | unset          (unset: the C callback pointer is NULL)
//!   exception = a ModbusException variant name (IllegalFunction .. Unknown)
//!   raw    = raw_exception byte
//!   start  = index / start address;  values = comma separated (one value for coil/register)
//! output line: ffi=<client result> cb=<number of invocations of that callback>/<other callbacks> args=<what the callback saw>
//!              rust=<client result against the Rust API server>
//!   client result = OK | EX:<ExceptionCode debug> | ERR:<RequestError debug>
use super::p5_common::*;
use rodbus::client::*;
use rodbus::server::*;
use rodbus::*;
use std::net::{IpAddr, SocketAddr};
use std::os::raw::c_void;
use std::sync::atomic::{AtomicUsize, Ordering};
use std::sync::{Arc, Mutex};
use std::time::Duration;

#[derive(Default)]
struct WhState {
    result: Option<(bool, i32, u8)>,
    calls: [u32; 4],
    args: Vec<String>,
}

fn reply(st: &WhState) -> ffi::WriteResult {
    let (s, e, r) = st.result.unwrap();
    ffi::WriteResult {
        success: s,
        exception: e,
        raw_exception: r,
    }
}

extern "C" fn cb_coil(i: u16, v: bool, _db: *mut rodbus_ffi::Database, ctx: *mut c_void) -> ffi::WriteResult {
    let mut st = unsafe { ctx_ref::<WhState>(ctx) }.lock().unwrap();
    st.calls[0] += 1;
    st.args.push(format!("coil:{i}:{}", v as u8));
    reply(&st)
}
extern "C" fn cb_reg(i: u16, v: u16, _db: *mut rodbus_ffi::Database, ctx: *mut c_void) -> ffi::WriteResult {
    let mut st = unsafe { ctx_ref::<WhState>(ctx) }.lock().unwrap();
    st.calls[1] += 1;
    st.args.push(format!("register:{i}:{v}"));
    reply(&st)
}
extern "C" fn cb_coils(s: u16, it: *mut rodbus_ffi::BitValueIterator, _db: *mut rodbus_ffi::Database, ctx: *mut c_void) -> ffi::WriteResult {
    let mut st = unsafe { ctx_ref::<WhState>(ctx) }.lock().unwrap();
    st.calls[2] += 1;
    let mut vals = Vec::new();
    unsafe {
        loop {
            let p = ffi::rodbus_bit_value_iterator_next(it);
            if p.is_null() {
                break;
            }
            vals.push(format!("{}={}", (*p).index, (*p).value as u8));
        }
    }
    st.args.push(format!("coils:{s}:{}", vals.join(",")));
    reply(&st)
}
extern "C" fn cb_regs(s: u16, it: *mut rodbus_ffi::RegisterValueIterator, _db: *mut rodbus_ffi::Database, ctx: *mut c_void) -> ffi::WriteResult {
    let mut st = unsafe { ctx_ref::<WhState>(ctx) }.lock().unwrap();
    st.calls[3] += 1;
    let mut vals = Vec::new();
    unsafe {
        loop {
            let p = ffi::rodbus_register_value_iterator_next(it);
            if p.is_null() {
                break;
            }
            vals.push(format!("{}={}", (*p).index, (*p).value));
        }
    }
    st.args.push(format!("registers:{s}:{}", vals.join(",")));
    reply(&st)
}

extern "C" fn db_none(_db: *mut rodbus_ffi::Database, _ctx: *mut c_void) {}

fn exception_by_name(name: &str) -> Option<ffi::ModbusException> {
    use ffi::ModbusException::*;
    Some(match name {
        "IllegalFunction" => IllegalFunction,
        "IllegalDataAddress" => IllegalDataAddress,
        "IllegalDataValue" => IllegalDataValue,
        "ServerDeviceFailure" => ServerDeviceFailure,
        "Acknowledge" => Acknowledge,
        "ServerDeviceBusy" => ServerDeviceBusy,
        "MemoryParityError" => MemoryParityError,
        "GatewayPathUnavailable" => GatewayPathUnavailable,
        "GatewayTargetDeviceFailedToRespond" => GatewayTargetDeviceFailedToRespond,
        "Unknown" => Unknown,
        _ => return None,
    })
}

/// the Rust API counterpart of the callback result: same-named ExceptionCode, Unknown(raw) for Unknown
fn rust_result(success: bool, name: &str, raw: u8) -> Result<(), ExceptionCode> {
    if success {
        return Ok(());
    }
    Err(match name {
        "IllegalFunction" => ExceptionCode::IllegalFunction,
        "IllegalDataAddress" => ExceptionCode::IllegalDataAddress,
        "IllegalDataValue" => ExceptionCode::IllegalDataValue,
        "ServerDeviceFailure" => ExceptionCode::ServerDeviceFailure,
        "Acknowledge" => ExceptionCode::Acknowledge,
        "ServerDeviceBusy" => ExceptionCode::ServerDeviceBusy,
        "MemoryParityError" => ExceptionCode::MemoryParityError,
        "GatewayPathUnavailable" => ExceptionCode::GatewayPathUnavailable,
        "GatewayTargetDeviceFailedToRespond" => ExceptionCode::GatewayTargetDeviceFailedToRespond,
        _ => ExceptionCode::Unknown(raw),
    })
}

struct RustHandler {
    result: Result<(), ExceptionCode>,
    set: bool,
}
impl RequestHandler for RustHandler {
    fn write_single_coil(&mut self, _v: Indexed<bool>) -> Result<(), ExceptionCode> {
        if self.set {
            self.result
        } else {
            Err(ExceptionCode::IllegalFunction)
        }
    }
    fn write_single_register(&mut self, _v: Indexed<u16>) -> Result<(), ExceptionCode> {
        if self.set {
            self.result
        } else {
            Err(ExceptionCode::IllegalFunction)
        }
    }
    fn write_multiple_coils(&mut self, _v: WriteCoils) -> Result<(), ExceptionCode> {
        if self.set {
            self.result
        } else {
            Err(ExceptionCode::IllegalFunction)
        }
    }
    fn write_multiple_registers(&mut self, _v: WriteRegisters) -> Result<(), ExceptionCode> {
        if self.set {
            self.result
        } else {
            Err(ExceptionCode::IllegalFunction)
        }
    }
}

fn show<T>(r: Result<T, RequestError>) -> String {
    match r {
        Ok(_) => "OK".into(),
        Err(RequestError::Exception(e)) => format!("EX:{e:?}"),
        Err(e) => format!("ERR:{e:?}"),
    }
}

async fn client_write(port: u16, kind: &str, start: u16, values: &[u16]) -> String {
    let channel = spawn_tcp_client_task(
        HostAddr::ip(IpAddr::from([127, 0, 0, 1]), port),
        4,
        rodbus::doubling_retry_strategy(Duration::from_millis(10), Duration::from_millis(40)),
        DecodeLevel::nothing(),
        None,
    );
    if channel.enable().await.is_err() {
        return "ERR:enable".into();
    }
    let param = RequestParam::new(UnitId::new(1), Duration::from_secs(5));
    for _ in 0..600 {
        let res = match kind {
            "coil" => show(channel.write_single_coil(param, Indexed::new(start, values[0] != 0)).await),
            "register" => show(channel.write_single_register(param, Indexed::new(start, values[0])).await),
            "coils" => match WriteMultiple::from(start, values.iter().map(|v| *v != 0).collect()) {
                Ok(w) => show(channel.write_multiple_coils(param, w).await),
                Err(e) => format!("ERR:{e:?}"),
            },
            "registers" => match WriteMultiple::from(start, values.to_vec()) {
                Ok(w) => show(channel.write_multiple_registers(param, w).await),
                Err(e) => format!("ERR:{e:?}"),
            },
            _ => "ERR:kind".into(),
        };
        if res == "ERR:NoConnection" {
            tokio::time::sleep(Duration::from_millis(5)).await;
            continue;
        }
        return res;
    }
    "ERR:NoConnection(after retries)".into()
}

fn case(rt: &tokio::runtime::Runtime, ffi_rt: &FfiRuntime, line: &str) -> String {
    let p: Vec<&str> = line.split_whitespace().collect();
    if p.len() != 7 {
        return "FAIL:syntax".into();
    }
    let (kind, cfg, success, exc, raw, start) = (p[0], p[1], p[2] == "1", p[3], p[4].parse::<u8>().unwrap(), p[5].parse::<u16>().unwrap());
    let values: Vec<u16> = p[6].split(',').map(|x| x.parse().unwrap()).collect();
    let exception = match exception_by_name(exc) {
        Some(e) => e,
        None => return "FAIL:exception name".into(),
    };
    let set = cfg == "set";
    // ---------------- C ABI server
    let (state, ctx) = leak_ctx(WhState {
        result: Some((success, exception.into(), raw)),
        ..Default::default()
    });
    let mut ffi_out = String::from("FAIL:bind");
    for _ in 0..8 {
        unsafe {
            let map = ffi::rodbus_device_map_create();
            let handler = ffi::WriteHandler {
                write_single_coil: if set { Some(cb_coil) } else { None },
                write_single_register: if set { Some(cb_reg) } else { None },
                write_multiple_coils: if set { Some(cb_coils) } else { None },
                write_multiple_registers: if set { Some(cb_regs) } else { None },
                on_destroy: Some(noop_destroy),
                ctx,
            };
            ffi::rodbus_device_map_add_endpoint(
                map,
                1,
                handler,
                ffi::DatabaseCallback {
                    callback: Some(db_none),
                    on_destroy: Some(noop_destroy),
                    ctx: std::ptr::null_mut(),
                },
            );
            let filter = ffi::rodbus_address_filter_any();
            let port = free_port("127.0.0.1");
            let ip = cstr("127.0.0.1");
            let mut server: *mut rodbus_ffi::Server = std::ptr::null_mut();
            let rc = ffi::rodbus_server_create_tcp(ffi_rt.0, ip.as_ptr(), port, filter, 4, map, decode_nothing(), &mut server);
            ffi::rodbus_device_map_destroy(map);
            ffi::rodbus_address_filter_destroy(filter);
            if rc != 0 {
                continue;
            }
            let res = rt.block_on(client_write(port, kind, start, &values));
            ffi::rodbus_server_destroy(server);
            let st = state.lock().unwrap();
            let idx = match kind {
                "coil" => 0,
                "register" => 1,
                "coils" => 2,
                _ => 3,
            };
            let others: u32 = st.calls.iter().enumerate().filter(|(i, _)| *i != idx).map(|(_, c)| *c).sum();
            ffi_out = format!("ffi={res} cb={}/{} args={}", st.calls[idx], others, if st.args.is_empty() { "-".to_string() } else { st.args.join("|") });
            break;
        }
    }
    // ---------------- Rust API server
    let mut rust_out = String::from("rust=FAIL:bind");
    for _ in 0..8 {
        let port = free_port("127.0.0.1");
        let handler = RustHandler {
            result: rust_result(success, exc, raw),
            set,
        };
        let map = ServerHandlerMap::single(UnitId::new(1), handler.wrap());
        let addr = SocketAddr::new(IpAddr::from([127, 0, 0, 1]), port);
        match rt.block_on(spawn_tcp_server_task(4, addr, map, AddressFilter::Any, DecodeLevel::nothing())) {
            Ok(handle) => {
                let res = rt.block_on(client_write(port, kind, start, &values));
                drop(handle);
                rust_out = format!("rust={res}");
                break;
            }
            Err(_) => continue,
        }
    }
    format!("{ffi_out} {rust_out}")
}

pub fn main(_args: &[String]) -> i32 {
    crate::util::quiet_panics();
    let rt = Arc::new(tokio::runtime::Builder::new_multi_thread().worker_threads(6).enable_all().build().unwrap());
    let ffi_rt = Arc::new(ffi_runtime(4));
    let lines: Arc<Vec<String>> = Arc::new(crate::util::stdin_lines().collect());
    let results: Arc<Mutex<Vec<String>>> = Arc::new(Mutex::new(vec![String::new(); lines.len()]));
    let next = Arc::new(AtomicUsize::new(0));
    let mut workers = Vec::new();
    for _ in 0..12 {
        let (rt, ffi_rt, lines, results, next) = (rt.clone(), ffi_rt.clone(), lines.clone(), results.clone(), next.clone());
        workers.push(std::thread::spawn(move || loop {
            let i = next.fetch_add(1, Ordering::SeqCst);
            if i >= lines.len() {
                break;
            }
            let line = lines[i].clone();
            let (rt2, f2) = (rt.clone(), ffi_rt.clone());
            let r = std::panic::catch_unwind(std::panic::AssertUnwindSafe(move || case(&rt2, &f2, &line)));
            results.lock().unwrap()[i] = r.unwrap_or_else(|_| "PANIC".to_string());
        }));
    }
    for w in workers {
        let _ = w.join();
    }
    for r in results.lock().unwrap().iter() {
        println!("{r}");
    }
    0
}
