//! C09 / C13 / C07: a TLS client channel against a peer that accepts the TCP connection and never
//! answers (the handshake stalls); while it stalls the channel is shut down, disabled, or given a request.
//! input line: <dir with ca_cert.pem client_cert.pem client_key.pem> <op> [stall_ms]     op: S | D | Q
//!   S  Channel::shutdown()     D  Channel::disable()     Q  a read request (2 s response timeout)
//! output line: <listener states observed until the END of the stall, ','-separated>;req=<none|NoConnection|other|pending>
//!   (the peer closes only after the stall; what happens then is not part of the line)
use std::net::{Ipv4Addr, SocketAddr};
use std::path::Path;
use std::time::Duration;

use rodbus::client::*;
use rodbus::*;

struct L {
    tx: std::sync::mpsc::Sender<ClientState>,
}
impl Listener<ClientState> for L {
    fn update(&mut self, value: ClientState) -> MaybeAsync<()> {
        let _ = self.tx.send(value);
        MaybeAsync::ready(())
    }
}

fn name(s: &ClientState) -> String {
    match s {
        ClientState::Disabled => "Disabled".to_string(),
        ClientState::Connecting => "Connecting".to_string(),
        ClientState::Connected => "Connected".to_string(),
        ClientState::WaitAfterFailedConnect(_) => "WaitAfterFailedConnect".to_string(),
        ClientState::WaitAfterDisconnect(_) => "WaitAfterDisconnect".to_string(),
        ClientState::Shutdown => "Shutdown".to_string(),
    }
}

pub fn main(_args: &[String]) -> i32 {
    crate::util::quiet_panics();
    let rt = tokio::runtime::Builder::new_multi_thread().worker_threads(2).enable_all().build().unwrap();
    for line in crate::util::stdin_lines() {
        let p: Vec<&str> = line.split_whitespace().collect();
        let dir = Path::new(p[0]);
        let op = p.get(1).copied().unwrap_or("S");
        let stall = Duration::from_millis(p.get(2).and_then(|s| s.parse().ok()).unwrap_or(600));
        let listener = std::net::TcpListener::bind((Ipv4Addr::LOCALHOST, 0)).unwrap();
        let addr: SocketAddr = listener.local_addr().unwrap();
        let cfg = match TlsClientConfig::full_pki(Some("test.com".to_string()), &dir.join("ca_cert.pem"), &dir.join("client_cert.pem"), &dir.join("client_key.pem"), None, MinTlsVersion::V1_2) {
            Ok(c) => c,
            Err(e) => {
                println!("CONFIG:{e}");
                continue;
            }
        };
        let (tx, rx) = std::sync::mpsc::channel();
        let _g = rt.enter();
        let channel = spawn_tls_client_task(HostAddr::ip(addr.ip(), addr.port()), 4, doubling_retry_strategy(Duration::from_secs(30), Duration::from_secs(30)), cfg, DecodeLevel::nothing(), Some(Box::new(L { tx })));
        let _ = rt.block_on(channel.enable());
        let (sock, _) = listener.accept().unwrap();
        // read the ClientHello so that the client is certainly past the TCP connect and inside its handshake
        let mut hello = [0u8; 5];
        let _ = sock.set_read_timeout(Some(Duration::from_secs(5)));
        let _ = std::io::Read::read_exact(&mut &sock, &mut hello);
        std::thread::sleep(Duration::from_millis(50));
        let mut req = "none".to_string();
        match op {
            "S" => {
                let _ = rt.block_on(channel.shutdown());
            }
            "D" => {
                let _ = rt.block_on(channel.disable());
            }
            "Q" => {
                let ch = channel.clone();
                let h = rt.spawn(async move {
                    let p = RequestParam::new(UnitId::new(1), Duration::from_secs(2));
                    ch.read_holding_registers(p, AddressRange::try_from(0, 1).unwrap()).await
                });
                let res = rt.block_on(async { tokio::time::timeout(stall, h).await });
                req = match res {
                    Err(_) => "pending".to_string(),
                    Ok(Ok(Err(RequestError::NoConnection))) => "NoConnection".to_string(),
                    Ok(_) => "other".to_string(),
                };
            }
            _ => {}
        }
        if op != "Q" {
            std::thread::sleep(stall);
        }
        let states: Vec<String> = rx.try_iter().map(|s| name(&s)).collect();
        println!("{};req={}", states.join(","), req);
        drop(sock);
        let _ = rt.block_on(channel.shutdown());
    }
    0
}
