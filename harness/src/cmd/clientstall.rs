//! C13 / C09 observation probe (not a check): the TLS client's handshake await is not raced with the
//! command queue. A TLS client channel connects to a peer that accepts the TCP connection and never
//! answers; Channel::shutdown() is called while the handshake is pending.
//! input line: <dir with ca_cert.pem client_cert.pem client_key.pem> <stall_ms>
//! output line: shutdown-announced-during-stall=<yes|no> after-peer-closed=<yes|no> states=<listener trace>
use std::net::{Ipv4Addr, SocketAddr};
use std::path::Path;
use std::time::Duration;

use rodbus::client::*;
use rodbus::*;

struct L {
    tx: std::sync::mpsc::Sender<ClientState>,
}
impl Listener<ClientState> for L {
    fn update(&mut self, value: ClientState) -> MaybeAsync<()> {
        let _ = self.tx.send(value);
        MaybeAsync::ready(())
    }
}

pub fn main(_args: &[String]) -> i32 {
    let rt = tokio::runtime::Builder::new_multi_thread().worker_threads(2).enable_all().build().unwrap();
    for line in crate::util::stdin_lines() {
        let p: Vec<&str> = line.split_whitespace().collect();
        let dir = Path::new(p[0]);
        let stall = Duration::from_millis(p.get(1).and_then(|s| s.parse().ok()).unwrap_or(500));
        let listener = std::net::TcpListener::bind((Ipv4Addr::LOCALHOST, 0)).unwrap();
        let addr: SocketAddr = listener.local_addr().unwrap();
        let cfg = TlsClientConfig::full_pki(Some("test.com".to_string()), &dir.join("ca_cert.pem"), &dir.join("client_cert.pem"), &dir.join("client_key.pem"), None, MinTlsVersion::V1_2).unwrap();
        let (tx, rx) = std::sync::mpsc::channel();
        let _g = rt.enter();
        let channel = spawn_tls_client_task(HostAddr::ip(addr.ip(), addr.port()), 4, doubling_retry_strategy(Duration::from_millis(50), Duration::from_millis(50)), cfg, DecodeLevel::nothing(), Some(Box::new(L { tx })));
        rt.block_on(channel.enable()).unwrap();
        let (sock, _) = listener.accept().unwrap();
        std::thread::sleep(Duration::from_millis(100)); // the client is now parked in its handshake
        let _ = rt.block_on(channel.shutdown());
        std::thread::sleep(stall);
        let mut states: Vec<ClientState> = rx.try_iter().collect();
        let during = states.contains(&ClientState::Shutdown);
        drop(sock);
        std::thread::sleep(Duration::from_millis(500));
        states.extend(rx.try_iter());
        let after = states.contains(&ClientState::Shutdown);
        println!(
            "shutdown-announced-during-stall={} after-peer-closed={} states={:?}",
            if during { "yes" } else { "no" },
            if after { "yes" } else { "no" },
            states
        );
    }
    0
}
