//! C12 / ClientOptions: the public builder of `rodbus::ClientOptions`, called in the order the input says.
//!
//! input line:  a chain of builder calls separated by ',' (or `-` for none), applied left to right to
//!              `ClientOptions::default()`:
//!                l<0|1>   channel_logging(Verbose | StateChanges)
//!                q<n>     max_queued_requests(n)
//!                d<0|1|2> decode_level(nothing | everything | app function code + frame header + phys length)
//!                t<n>     max_response_timeouts(None for 0 | Some(n))
//! output line: l=<0|1> q=<n> d=<0|1|2|?> t=<n>     the resulting fields (hook `rodbus::verif::client_options_fields`)
//!
//! `build` is also what the `lifecycle` subcommand uses when its configuration has `chain=`: there the resulting
//! options go into the real `create_tcp_client_task_with_options` and are observed by behaviour only.
use rodbus::{AppDecodeLevel, ChannelLoggingMode, ClientOptions, DecodeLevel, FrameDecodeLevel, PhysDecodeLevel};

pub fn decode_of(code: u64) -> DecodeLevel {
    match code {
        0 => DecodeLevel::nothing(),
        1 => DecodeLevel::new(AppDecodeLevel::DataValues, FrameDecodeLevel::Payload, PhysDecodeLevel::Data),
        _ => DecodeLevel::new(AppDecodeLevel::FunctionCode, FrameDecodeLevel::Header, PhysDecodeLevel::Length),
    }
}

/// `ClientOptions::default()` followed by the public builder calls of `chain`, in that order
pub fn build(chain: &str) -> ClientOptions {
    let mut o = ClientOptions::default();
    for call in chain.split(',').filter(|c| !c.is_empty() && *c != "-") {
        let (m, v) = call.split_at(1);
        let v: u64 = v.parse().expect("builder argument");
        o = match m {
            "l" => o.channel_logging(if v == 0 { ChannelLoggingMode::Verbose } else { ChannelLoggingMode::StateChanges }),
            "q" => o.max_queued_requests(v as usize),
            "d" => o.decode_level(decode_of(v)),
            "t" => o.max_response_timeouts(std::num::NonZeroUsize::new(v as usize)),
            _ => panic!("unknown builder call {call}"),
        };
    }
    o
}

pub fn main(_args: &[String]) -> i32 {
    crate::util::quiet_panics();
    for line in crate::util::stdin_lines() {
        let res = std::panic::catch_unwind(move || {
            let (l, q, d, t) = rodbus::verif::client_options_fields(&build(line.trim()));
            let d = (0..3u64).find(|c| decode_of(*c) == d).map(|c| c.to_string()).unwrap_or_else(|| "?".into());
            format!(
                "l={} q={} d={} t={}",
                if l == ChannelLoggingMode::Verbose { 0 } else { 1 },
                q,
                d,
                t.map(|n| n.get()).unwrap_or(0)
            )
        });
        match res {
            Ok(s) => println!("{s}"),
            Err(_) => println!("PANIC"),
        }
    }
    0
}
