//! C18 (TLS + authorization through the C ABI): a C-ABI TLS server with a C authorization handler, and the
//! C-ABI TLS client, against their Rust API twins. Exercises the Authorization, MinTlsVersion and
//! CertificateMode conversions and the pass-through of unit id, range / index and role.
//! args:       <repo path> <verification certs dir>
//! or:         seq <server> <policy allow|deny|byrole|coils> <unit> <role>:<op>:<start>:<n>[,...]   several sessions, one server
//! input line: <server> <client> <op> <decision> <unit> <start> <n>
//!   server   = ffi | rust      (rodbus_server_create_tls_with_authz vs spawn_tls_server_task_with_authz)
//!   client   = ffi | rust      (rodbus_client_channel_create_tls vs spawn_tls_client_task); ffi supports op rh only
//!   op       = rc | rd | rh | ri | wc | wr | wmc | wmr
//!   decision = allow | deny | unset   (unset: the C callback pointer is NULL; for a rust server = deny)
//! output line: client=<OK[:values] | EX:<exception> | ERR:<error>> auth=<callback>:<unit>:<start>,<count>|<index>:<role> x<invocations>
use super::p5_common::*;
use rodbus::client::*;
use rodbus::server::*;
use rodbus::*;
use std::net::{IpAddr, SocketAddr};
use std::os::raw::{c_char, c_int, c_void};
use std::sync::atomic::{AtomicUsize, Ordering};
use std::sync::{Arc, Mutex};
use std::time::{Duration, Instant};

#[derive(Default)]
struct AuthLog {
    allow: bool,
    /// role-sensitive policy: `operator` may do everything, `viewer` may read, anybody else nothing
    by_role: bool,
    /// kind-sensitive policy `coils`: only the three coil callbacks allow (read_coils, write_single_coil,
    /// write_multiple_coils), whatever the role
    coils_only: bool,
    calls: Vec<String>,
}

fn by_role_allows(label: &str, role: &str) -> bool {
    role == "operator" || (role == "viewer" && label.starts_with("read_"))
}

fn role_of(p: *const c_char) -> String {
    unsafe { std::ffi::CStr::from_ptr(p) }.to_string_lossy().to_string()
}

macro_rules! range_cb {
    ($name:ident, $label:expr) => {
        extern "C" fn $name(unit: u8, range: ffi::AddressRange, role: *const c_char, ctx: *mut c_void) -> c_int {
            let mut l = unsafe { ctx_ref::<AuthLog>(ctx) }.lock().unwrap();
            l.calls.push(format!("{}:{}:{},{}:{}", $label, unit, range.start, range.count, role_of(role)));
            if (l.coils_only && $label.contains("coil")) || (!l.coils_only && ((l.by_role && by_role_allows($label, &role_of(role))) || (!l.by_role && l.allow))) {
                ffi::Authorization::Allow.into()
            } else {
                ffi::Authorization::Deny.into()
            }
        }
    };
}
macro_rules! index_cb {
    ($name:ident, $label:expr) => {
        extern "C" fn $name(unit: u8, index: u16, role: *const c_char, ctx: *mut c_void) -> c_int {
            let mut l = unsafe { ctx_ref::<AuthLog>(ctx) }.lock().unwrap();
            l.calls.push(format!("{}:{}:{}:{}", $label, unit, index, role_of(role)));
            if (l.coils_only && $label.contains("coil")) || (!l.coils_only && ((l.by_role && by_role_allows($label, &role_of(role))) || (!l.by_role && l.allow))) {
                ffi::Authorization::Allow.into()
            } else {
                ffi::Authorization::Deny.into()
            }
        }
    };
}
range_cb!(a_rc, "read_coils");
range_cb!(a_rd, "read_discrete_inputs");
range_cb!(a_rh, "read_holding_registers");
range_cb!(a_ri, "read_input_registers");
index_cb!(a_wc, "write_single_coil");
index_cb!(a_wr, "write_single_register");
range_cb!(a_wmc, "write_multiple_coils");
range_cb!(a_wmr, "write_multiple_registers");

struct RustAuth {
    allow: bool,
    by_role: bool,
    coils_only: bool,
    log: Arc<Mutex<Vec<String>>>,
}
impl RustAuth {
    fn decide(&self, what: String) -> Authorization {
        let label = what.split(':').next().unwrap_or("").to_string();
        let role = what.rsplit(':').next().unwrap_or("").to_string();
        self.log.lock().unwrap().push(what);
        if (self.coils_only && label.contains("coil")) || (!self.coils_only && ((self.by_role && by_role_allows(&label, &role)) || (!self.by_role && self.allow))) {
            Authorization::Allow
        } else {
            Authorization::Deny
        }
    }
}
impl AuthorizationHandler for RustAuth {
    fn read_coils(&self, u: UnitId, r: AddressRange, role: &str) -> Authorization {
        self.decide(format!("read_coils:{}:{},{}:{}", u.value, r.start, r.count, role))
    }
    fn read_discrete_inputs(&self, u: UnitId, r: AddressRange, role: &str) -> Authorization {
        self.decide(format!("read_discrete_inputs:{}:{},{}:{}", u.value, r.start, r.count, role))
    }
    fn read_holding_registers(&self, u: UnitId, r: AddressRange, role: &str) -> Authorization {
        self.decide(format!("read_holding_registers:{}:{},{}:{}", u.value, r.start, r.count, role))
    }
    fn read_input_registers(&self, u: UnitId, r: AddressRange, role: &str) -> Authorization {
        self.decide(format!("read_input_registers:{}:{},{}:{}", u.value, r.start, r.count, role))
    }
    fn write_single_coil(&self, u: UnitId, idx: u16, role: &str) -> Authorization {
        self.decide(format!("write_single_coil:{}:{}:{}", u.value, idx, role))
    }
    fn write_single_register(&self, u: UnitId, idx: u16, role: &str) -> Authorization {
        self.decide(format!("write_single_register:{}:{}:{}", u.value, idx, role))
    }
    fn write_multiple_coils(&self, u: UnitId, r: AddressRange, role: &str) -> Authorization {
        self.decide(format!("write_multiple_coils:{}:{},{}:{}", u.value, r.start, r.count, role))
    }
    fn write_multiple_registers(&self, u: UnitId, r: AddressRange, role: &str) -> Authorization {
        self.decide(format!("write_multiple_registers:{}:{},{}:{}", u.value, r.start, r.count, role))
    }
}

/// a handler over the same ten points per type as `simple_device_map` (holding / input register i = i)
struct TenPoints;
impl RequestHandler for TenPoints {
    fn read_coil(&self, a: u16) -> Result<bool, ExceptionCode> {
        if a < 10 {
            Ok(false)
        } else {
            Err(ExceptionCode::IllegalDataAddress)
        }
    }
    fn read_discrete_input(&self, a: u16) -> Result<bool, ExceptionCode> {
        self.read_coil(a)
    }
    fn read_holding_register(&self, a: u16) -> Result<u16, ExceptionCode> {
        if a < 10 {
            Ok(a)
        } else {
            Err(ExceptionCode::IllegalDataAddress)
        }
    }
    fn read_input_register(&self, a: u16) -> Result<u16, ExceptionCode> {
        self.read_holding_register(a)
    }
    fn write_single_coil(&mut self, _v: Indexed<bool>) -> Result<(), ExceptionCode> {
        Ok(())
    }
    fn write_single_register(&mut self, _v: Indexed<u16>) -> Result<(), ExceptionCode> {
        Ok(())
    }
    fn write_multiple_coils(&mut self, _v: WriteCoils) -> Result<(), ExceptionCode> {
        Ok(())
    }
    fn write_multiple_registers(&mut self, _v: WriteRegisters) -> Result<(), ExceptionCode> {
        Ok(())
    }
}

fn show<T, F: Fn(&T) -> String>(r: Result<T, RequestError>, f: F) -> String {
    match r {
        Ok(v) => format!("OK{}", f(&v)),
        Err(RequestError::Exception(e)) => format!("EX:{e:?}"),
        Err(e) => format!("ERR:{e:?}"),
    }
}

async fn rust_client(repo: &str, port: u16, op: &str, unit: u8, start: u16, n: u16) -> String {
    let d = format!("{repo}/certs/ca_chain");
    rust_client_with(&format!("{d}/ca_cert.pem"), &format!("{d}/client_cert.pem"), &format!("{d}/client_key.pem"), port, op, unit, start, n).await
}

#[allow(clippy::too_many_arguments)]
async fn rust_client_with(ca: &str, cert: &str, key: &str, port: u16, op: &str, unit: u8, start: u16, n: u16) -> String {
    let tls = match TlsClientConfig::full_pki(
        Some("test.com".to_string()),
        std::path::Path::new(ca),
        std::path::Path::new(cert),
        std::path::Path::new(key),
        None,
        MinTlsVersion::V1_2,
    ) {
        Ok(x) => x,
        Err(e) => return format!("ERR:tls config {e}"),
    };
    let ch = spawn_tls_client_task(
        HostAddr::ip(IpAddr::from([127, 0, 0, 1]), port),
        4,
        rodbus::doubling_retry_strategy(Duration::from_millis(10), Duration::from_millis(40)),
        tls,
        DecodeLevel::nothing(),
        None,
    );
    let _ = ch.enable().await;
    let param = RequestParam::new(UnitId::new(unit), Duration::from_secs(5));
    let bits = |v: &Vec<Indexed<bool>>| format!(":{}", v.iter().map(|x| format!("{}={}", x.index, x.value as u8)).collect::<Vec<_>>().join(","));
    let regs = |v: &Vec<Indexed<u16>>| format!(":{}", v.iter().map(|x| format!("{}={}", x.index, x.value)).collect::<Vec<_>>().join(","));
    for _ in 0..800 {
        let range = AddressRange::try_from(start, n.max(1)).unwrap();
        let r = match op {
            "rc" => show(ch.read_coils(param, range).await, bits),
            "rd" => show(ch.read_discrete_inputs(param, range).await, bits),
            "rh" => show(ch.read_holding_registers(param, range).await, regs),
            "ri" => show(ch.read_input_registers(param, range).await, regs),
            "wc" => show(ch.write_single_coil(param, Indexed::new(start, n != 0)).await, |_| String::new()),
            "wr" => show(ch.write_single_register(param, Indexed::new(start, n)).await, |_| String::new()),
            "wmc" => show(ch.write_multiple_coils(param, WriteMultiple::from(start, vec![true; n.max(1) as usize]).unwrap()).await, |_| String::new()),
            "wmr" => show(ch.write_multiple_registers(param, WriteMultiple::from(start, vec![7u16; n.max(1) as usize]).unwrap()).await, |_| String::new()),
            _ => "ERR:op".into(),
        };
        if r == "ERR:NoConnection" {
            tokio::time::sleep(Duration::from_millis(5)).await;
            continue;
        }
        return r;
    }
    "ERR:NoConnection(after retries)".into()
}

// ---- C-ABI TLS client (read holding registers only)
#[derive(Default)]
struct Slot {
    events: Vec<String>,
}
extern "C" fn regs_complete(it: *mut rodbus_ffi::RegisterValueIterator, ctx: *mut c_void) {
    let mut v = Vec::new();
    unsafe {
        loop {
            let p = ffi::rodbus_register_value_iterator_next(it);
            if p.is_null() {
                break;
            }
            v.push(format!("{}={}", (*p).index, (*p).value));
        }
        ctx_ref::<Slot>(ctx).lock().unwrap().events.push(format!("OK:{}", v.join(",")));
    }
}
extern "C" fn on_failure(err: c_int, ctx: *mut c_void) {
    let name = std::panic::catch_unwind(|| format!("{:?}", ffi::RequestError::from(err))).unwrap_or_else(|_| format!("#{err}"));
    unsafe { ctx_ref::<Slot>(ctx) }.lock().unwrap().events.push(name);
}
extern "C" fn on_state(_state: c_int, _ctx: *mut c_void) {}

fn ffi_client(ffi_rt: &FfiRuntime, paths: &TlsPaths, port: u16, unit: u8, start: u16, n: u16) -> String {
    let host = cstr("127.0.0.1");
    let dns = cstr("test.com");
    let cfg = ffi::TlsClientConfig {
        dns_name: dns.as_ptr(),
        peer_cert_path: paths.ca.as_ptr(),
        local_cert_path: paths.client_cert.as_ptr(),
        private_key_path: paths.client_key.as_ptr(),
        password: paths.empty.as_ptr(),
        min_tls_version: ffi::MinTlsVersion::V12.into(),
        certificate_mode: ffi::CertificateMode::AuthorityBased.into(),
        allow_server_name_wildcard: false,
    };
    let mut ch: *mut rodbus_ffi::ClientChannel = std::ptr::null_mut();
    let rc = unsafe {
        ffi::rodbus_client_channel_create_tls(
            ffi_rt.0,
            host.as_ptr(),
            port,
            4,
            ffi::RetryStrategy {
                min_delay: 10,
                max_delay: 40,
            },
            cfg,
            decode_nothing(),
            ffi::ClientStateListener {
                on_change: Some(on_state),
                on_destroy: Some(noop_destroy),
                ctx: std::ptr::null_mut(),
            },
            &mut ch,
        )
    };
    if rc != 0 {
        return format!("ERR:create_tls:{}", param_error_name(rc));
    }
    unsafe { ffi::rodbus_client_channel_enable(ch) };
    let mut result = String::from("ERR:NoConnection(after retries)");
    for _ in 0..800 {
        let (slot, ctx) = leak_ctx(Slot::default());
        let rc = unsafe {
            ffi::rodbus_client_channel_read_holding_registers(
                ch,
                ffi::RequestParam { unit_id: unit, timeout: 5000 },
                ffi::AddressRange { start, count: n.max(1) },
                ffi::RegisterReadCallback {
                    on_complete: Some(regs_complete),
                    on_failure: Some(on_failure),
                    on_destroy: Some(noop_destroy),
                    ctx,
                },
            )
        };
        if rc != 0 {
            result = format!("ERR:rc:{}", param_error_name(rc));
            break;
        }
        let t0 = Instant::now();
        while slot.lock().unwrap().events.is_empty() && t0.elapsed() < Duration::from_secs(10) {
            std::thread::sleep(Duration::from_millis(2));
        }
        let ev = slot.lock().unwrap().events.join("+");
        if ev == "NoConnection" {
            std::thread::sleep(Duration::from_millis(5));
            continue;
        }
        result = match ev.as_str() {
            x if x.starts_with("OK") => x.to_string(),
            x if x.starts_with("ModbusException") => format!("EX:{}", &x["ModbusException".len()..]),
            x => format!("ERR:{x}"),
        };
        break;
    }
    unsafe { ffi::rodbus_client_channel_destroy(ch) };
    result
}

struct Env {
    rt: tokio::runtime::Runtime,
    ffi_rt: FfiRuntime,
    /// directory holding the verification's own certificate sets (ca2, ss)
    certs: String,
    repo: String,
    paths: TlsPaths,
}
unsafe impl Send for Env {}
unsafe impl Sync for Env {}

/// seq <server> <policy> <unit> <role>:<op>:<start>:<n>[,...]: ONE TLS+authz server, several client sessions one after
/// the other, each with the certificate of its role (material of <certs>/ca2: operator, viewer, mixed = "Plant-Operator.v2")
fn sequence(env: &Env, p: &[&str]) -> String {
    if p.len() != 5 {
        return "FAIL:syntax".into();
    }
    let (server, policy, unit) = (p[1], p[2], p[3].parse::<u8>().unwrap());
    let (allow, by_role, coils_only) = (policy == "allow", policy == "byrole", policy == "coils");
    let d = format!("{}/ca2", env.certs);
    let sessions: Vec<Vec<&str>> = p[4].split(',').map(|x| x.split(':').collect()).collect();
    let cert_of = |role: &str| match role {
        "operator" => ("client_cert.pem", "client_key.pem"),
        "viewer" => ("client_otherrole_cert.pem", "client_otherrole_key.pem"),
        // certificates WITHOUT a usable role: no role extension / two role extensions
        "roleless" => ("client_roleless_cert.pem", "client_roleless_key.pem"),
        "tworoles" => ("client_tworoles_cert.pem", "client_tworoles_key.pem"),
        _ => ("client_mixedrole_cert.pem", "client_mixedrole_key.pem"),
    };
    let run_sessions = |port: u16, calls: &dyn Fn() -> Vec<String>| -> String {
        let mut out = Vec::new();
        for sess in &sessions {
            let (role, op, start, n) = (sess[0], sess[1], sess[2].parse::<u16>().unwrap(), sess[3].parse::<u16>().unwrap());
            let (cert, key) = cert_of(role);
            let before = calls().len();
            let r = env.rt.block_on(rust_client_with(&format!("{d}/ca_cert.pem"), &format!("{d}/{cert}"), &format!("{d}/{key}"), port, op, unit, start, n));
            let after = calls();
            out.push(format!("client={r} auth={} x{}", after.last().cloned().unwrap_or_else(|| "-".into()), after.len() - before));
        }
        out.join(";")
    };
    for _ in 0..8 {
        let port = free_port("127.0.0.1");
        if server == "ffi" {
            let (log, ctx) = leak_ctx(AuthLog { allow, by_role, coils_only, calls: Vec::new() });
            let handler = ffi::AuthorizationHandler {
                read_coils: Some(a_rc),
                read_discrete_inputs: Some(a_rd),
                read_holding_registers: Some(a_rh),
                read_input_registers: Some(a_ri),
                write_single_coil: Some(a_wc),
                write_single_register: Some(a_wr),
                write_multiple_coils: Some(a_wmc),
                write_multiple_registers: Some(a_wmr),
                on_destroy: Some(noop_destroy),
                ctx,
            };
            let (ca, sc, sk, empty) = (cstr(&format!("{d}/ca_cert.pem")), cstr(&format!("{d}/server_cert.pem")), cstr(&format!("{d}/server_key.pem")), cstr(""));
            let cfg = ffi::TlsServerConfig {
                peer_cert_path: ca.as_ptr(),
                local_cert_path: sc.as_ptr(),
                private_key_path: sk.as_ptr(),
                password: empty.as_ptr(),
                min_tls_version: ffi::MinTlsVersion::V12.into(),
                certificate_mode: ffi::CertificateMode::AuthorityBased.into(),
            };
            unsafe {
                let map = ffi::rodbus_device_map_create();
                extern "C" fn init(db: *mut rodbus_ffi::Database, _ctx: *mut c_void) {
                    unsafe {
                        for i in 0..10u16 {
                            ffi::rodbus_database_add_coil(db, i, false);
                            ffi::rodbus_database_add_discrete_input(db, i, false);
                            ffi::rodbus_database_add_holding_register(db, i, i);
                            ffi::rodbus_database_add_input_register(db, i, i);
                        }
                    }
                }
                ffi::rodbus_device_map_add_endpoint(
                    map,
                    unit,
                    accepting_write_handler(),
                    ffi::DatabaseCallback {
                        callback: Some(init),
                        on_destroy: Some(noop_destroy),
                        ctx: std::ptr::null_mut(),
                    },
                );
                let filter = ffi::rodbus_address_filter_any();
                let ip = cstr("127.0.0.1");
                let mut srv: *mut rodbus_ffi::Server = std::ptr::null_mut();
                let rc = ffi::rodbus_server_create_tls_with_authz(env.ffi_rt.0, ip.as_ptr(), port, filter, 8, map, cfg, handler, decode_nothing(), &mut srv);
                ffi::rodbus_device_map_destroy(map);
                ffi::rodbus_address_filter_destroy(filter);
                if rc != 0 {
                    if rc == ffi::ParamError::ServerBindError as i32 {
                        continue;
                    }
                    return format!("FAIL:server_create:{}", param_error_name(rc));
                }
                let r = run_sessions(port, &|| log.lock().unwrap().calls.clone());
                ffi::rodbus_server_destroy(srv);
                return r;
            }
        } else {
            let log = Arc::new(Mutex::new(Vec::new()));
            let auth: Arc<dyn AuthorizationHandler> = Arc::new(RustAuth { allow, by_role, coils_only, log: log.clone() });
            let map = ServerHandlerMap::single(UnitId::new(unit), TenPoints.wrap());
            let addr = SocketAddr::new(IpAddr::from([127, 0, 0, 1]), port);
            let cfg = match rodbus::server::TlsServerConfig::new(
                std::path::Path::new(&format!("{d}/ca_cert.pem")),
                std::path::Path::new(&format!("{d}/server_cert.pem")),
                std::path::Path::new(&format!("{d}/server_key.pem")),
                None,
                rodbus::server::MinTlsVersion::V1_2,
                rodbus::server::CertificateMode::AuthorityBased,
            ) {
                Ok(c) => c,
                Err(e) => return format!("FAIL:tls config {e}"),
            };
            match env.rt.block_on(spawn_tls_server_task_with_authz(8, addr, map, auth, cfg, AddressFilter::Any, DecodeLevel::nothing())) {
                Ok(handle) => {
                    let r = run_sessions(port, &|| log.lock().unwrap().clone());
                    drop(handle);
                    return r;
                }
                Err(_) => continue,
            }
        }
    }
    "FAIL:bind".into()
}

fn case(env: &Env, line: &str) -> String {
    let p: Vec<&str> = line.split_whitespace().collect();
    if p.first() == Some(&"seq") {
        return sequence(env, &p);
    }
    if p.len() != 7 {
        return "FAIL:syntax".into();
    }
    let (server, client, op, decision) = (p[0], p[1], p[2], p[3]);
    let (unit, start, n): (u8, u16, u16) = (p[4].parse().unwrap(), p[5].parse().unwrap(), p[6].parse().unwrap());
    let allow = decision == "allow";
    let run_client = |port: u16| -> String {
        if client == "ffi" {
            ffi_client(&env.ffi_rt, &env.paths, port, unit, start, n)
        } else {
            env.rt.block_on(rust_client(&env.repo, port, op, unit, start, n))
        }
    };
    for _ in 0..8 {
        let port = free_port("127.0.0.1");
        if server == "ffi" {
            let (log, ctx) = leak_ctx(AuthLog { allow, by_role: false, coils_only: false, calls: Vec::new() });
            let set = decision != "unset";
            let handler = ffi::AuthorizationHandler {
                read_coils: if set { Some(a_rc) } else { None },
                read_discrete_inputs: if set { Some(a_rd) } else { None },
                read_holding_registers: if set { Some(a_rh) } else { None },
                read_input_registers: if set { Some(a_ri) } else { None },
                write_single_coil: if set { Some(a_wc) } else { None },
                write_single_register: if set { Some(a_wr) } else { None },
                write_multiple_coils: if set { Some(a_wmc) } else { None },
                write_multiple_registers: if set { Some(a_wmr) } else { None },
                on_destroy: Some(noop_destroy),
                ctx,
            };
            unsafe {
                // unit id of the case: the device map must answer for it
                let map = ffi::rodbus_device_map_create();
                extern "C" fn init(db: *mut rodbus_ffi::Database, _ctx: *mut c_void) {
                    unsafe {
                        for i in 0..10u16 {
                            ffi::rodbus_database_add_coil(db, i, false);
                            ffi::rodbus_database_add_discrete_input(db, i, false);
                            ffi::rodbus_database_add_holding_register(db, i, i);
                            ffi::rodbus_database_add_input_register(db, i, i);
                        }
                    }
                }
                ffi::rodbus_device_map_add_endpoint(
                    map,
                    unit,
                    accepting_write_handler(),
                    ffi::DatabaseCallback {
                        callback: Some(init),
                        on_destroy: Some(noop_destroy),
                        ctx: std::ptr::null_mut(),
                    },
                );
                let filter = ffi::rodbus_address_filter_any();
                let ip = cstr("127.0.0.1");
                let mut srv: *mut rodbus_ffi::Server = std::ptr::null_mut();
                let rc = ffi::rodbus_server_create_tls_with_authz(
                    env.ffi_rt.0,
                    ip.as_ptr(),
                    port,
                    filter,
                    4,
                    map,
                    ffi_tls_server_config(&env.paths),
                    handler,
                    decode_nothing(),
                    &mut srv,
                );
                ffi::rodbus_device_map_destroy(map);
                ffi::rodbus_address_filter_destroy(filter);
                if rc != 0 {
                    if rc == ffi::ParamError::ServerBindError as i32 {
                        continue;
                    }
                    return format!("FAIL:server_create:{}", param_error_name(rc));
                }
                let r = run_client(port);
                ffi::rodbus_server_destroy(srv);
                let l = log.lock().unwrap();
                return format!("client={r} auth={} x{}", l.calls.first().cloned().unwrap_or_else(|| "-".into()), l.calls.len());
            }
        } else {
            let log = Arc::new(Mutex::new(Vec::new()));
            let auth: Arc<dyn AuthorizationHandler> = Arc::new(RustAuth { allow, by_role: false, coils_only: false, log: log.clone() });
            let map = ServerHandlerMap::single(UnitId::new(unit), TenPoints.wrap());
            let addr = SocketAddr::new(IpAddr::from([127, 0, 0, 1]), port);
            match env.rt.block_on(spawn_tls_server_task_with_authz(4, addr, map, auth, rust_tls_server_config(&env.repo), AddressFilter::Any, DecodeLevel::nothing())) {
                Ok(handle) => {
                    let r = run_client(port);
                    drop(handle);
                    let l = log.lock().unwrap();
                    return format!("client={r} auth={} x{}", l.first().cloned().unwrap_or_else(|| "-".into()), l.len());
                }
                Err(_) => continue,
            }
        }
    }
    "FAIL:bind".into()
}

pub fn main(args: &[String]) -> i32 {
    crate::util::quiet_panics();
    let lines_in: Vec<String> = crate::util::stdin_lines().collect();
    let mut out = private_stdout();
    let repo = args.first().cloned().unwrap_or_else(|| "/repo".to_string());
    let env = Arc::new(Env {
        rt: tokio::runtime::Builder::new_multi_thread().worker_threads(6).enable_all().build().unwrap(),
        ffi_rt: ffi_runtime(4),
        paths: tls_paths(&repo),
        certs: args.get(1).cloned().unwrap_or_else(|| "/verif/certs".to_string()),
        repo,
    });
    let lines: Arc<Vec<String>> = Arc::new(lines_in);
    let results: Arc<Mutex<Vec<String>>> = Arc::new(Mutex::new(vec![String::new(); lines.len()]));
    let next = Arc::new(AtomicUsize::new(0));
    let mut workers = Vec::new();
    for _ in 0..12 {
        let (env, lines, results, next) = (env.clone(), lines.clone(), results.clone(), next.clone());
        workers.push(std::thread::spawn(move || loop {
            let i = next.fetch_add(1, Ordering::SeqCst);
            if i >= lines.len() {
                break;
            }
            let line = lines[i].clone();
            let env2 = env.clone();
            let r = std::panic::catch_unwind(std::panic::AssertUnwindSafe(move || case(&env2, &line)));
            results.lock().unwrap()[i] = r.unwrap_or_else(|_| "PANIC".to_string());
        }));
    }
    for w in workers {
        let _ = w.join();
    }
    use std::io::Write;
    for r in results.lock().unwrap().iter() {
        writeln!(out, "{r}").unwrap();
    }
    0
}
