//! C09: one TLS handshake cell per input line, the rodbus endpoint under test on loopback against
//! an independent peer (`openssl s_client` / `s_server`), another rodbus endpoint, or a plain TCP
//! peer that talks Modbus in clear.
//!
//! input line: space separated key=value
//!   side=server|client|ffiserver|fficlient   which rodbus endpoint is under test (ffiserver: the server
//!                               created through the C ABI: rodbus_server_create_tls / _with_authz; fficlient:
//!                               rodbus_client_channel_create_tls, "no expected name" = dns_name "*" with
//!                               allow_server_name_wildcard)
//!   min=12|13  mode=ca|ss  authz=0|1 (server side)  name=<expected server name>|- (client side, ca mode)
//!   trust=<pem> cert=<pem> key=<pem>      material of the endpoint under test (trust = peer_cert_path)
//!   ctor=new                    (side=client) build the client with the deprecated TlsClientConfig::new
//!   wildcard=0|1                (side=fficlient) allow_server_name_wildcard; name is then the dns_name verbatim ("*" included)
//!   peer=openssl|rodbus|plain   offer=12|13|both
//!   gate=level                  the peer's ClientHello is held back by a relay in front of the endpoint under test
//!                               (side=server: peers openssl / rodbus) resp. the ClientHello of the client under test
//!                               is held back (side=client); meanwhile set_decode_level is called on the ServerHandle
//!                               resp. the Channel under test; then the handshake goes on. Same output as without.
//!   stuck=silent|partial|plain  (side=server) before the peer another connection is made and kept open: it sends nothing /
//!                               9 bytes of a ClientHello / Modbus in clear. Same output as without.
//!   pmode=ca|ss ptrust=<pem> pcert=<pem> pkey=<pem> [pchain=<pem>]   material of the peer (pchain: intermediates
//!                               an openssl peer sends along; a rodbus peer gets them inside pcert)
//! output line:  <OK|REFUSED>:<negotiated version as reported by openssl or ->:<roles seen by the
//!   authorization handler, ','-separated, or ->:<number of request-handler calls>
//!   OK = a Modbus request was answered through the session (server side) / the client task
//!   announced Connected (client side; with a rodbus peer also: a request was answered)
//! args: [openssl binary]  (default /root/miniconda/bin/openssl)
use std::collections::HashMap;
use std::io::{Read, Write};
use std::net::{Ipv4Addr, SocketAddr};
use std::path::Path;
use std::process::{Child, Command, Stdio};
use std::sync::atomic::{AtomicUsize, Ordering};
use std::sync::{Arc, Mutex};
use std::time::{Duration, Instant};

use rodbus::client::*;
use rodbus::server::*;
use rodbus::*;

struct Handler {
    calls: Arc<AtomicUsize>,
}
impl RequestHandler for Handler {
    fn read_holding_register(&self, _address: u16) -> Result<u16, ExceptionCode> {
        self.calls.fetch_add(1, Ordering::SeqCst);
        Ok(42)
    }
}

struct Authz {
    roles: Arc<Mutex<Vec<String>>>,
}
impl AuthorizationHandler for Authz {
    fn read_holding_registers(&self, _unit_id: UnitId, _range: AddressRange, role: &str) -> Authorization {
        self.roles.lock().unwrap().push(role.to_string());
        Authorization::Allow
    }
}

struct StateListener {
    tx: std::sync::mpsc::Sender<ClientState>,
}
impl Listener<ClientState> for StateListener {
    fn update(&mut self, value: ClientState) -> MaybeAsync<()> {
        let _ = self.tx.send(value);
        MaybeAsync::ready(())
    }
}

const REQUEST: [u8; 12] = [0, 1, 0, 0, 0, 6, 1, 3, 0, 0, 0, 1];
const REPLY: [u8; 11] = [0, 1, 0, 0, 0, 5, 1, 3, 2, 0, 42];

fn min_of(s: &str) -> MinTlsVersion {
    if s == "13" {
        MinTlsVersion::V1_3
    } else {
        MinTlsVersion::V1_2
    }
}
fn mode_of(s: &str) -> CertificateMode {
    if s == "ss" {
        CertificateMode::SelfSigned
    } else {
        CertificateMode::AuthorityBased
    }
}

fn free_port(ip: Ipv4Addr) -> u16 {
    std::net::TcpListener::bind((ip, 0)).expect("bind").local_addr().unwrap().port()
}

struct Proc {
    child: Child,
    out: Arc<Mutex<Vec<u8>>>,
    err: Arc<Mutex<Vec<u8>>>,
    eof: Arc<AtomicUsize>,
}

fn pump<R: Read + Send + 'static>(mut r: R, sink: Arc<Mutex<Vec<u8>>>, eof: Arc<AtomicUsize>) {
    std::thread::spawn(move || {
        let mut buf = [0u8; 4096];
        loop {
            match r.read(&mut buf) {
                Ok(0) | Err(_) => break,
                Ok(n) => sink.lock().unwrap().extend_from_slice(&buf[..n]),
            }
        }
        eof.fetch_add(1, Ordering::SeqCst);
    });
}

impl Proc {
    fn spawn(mut cmd: Command) -> std::io::Result<Proc> {
        let mut child = cmd.stdin(Stdio::piped()).stdout(Stdio::piped()).stderr(Stdio::piped()).spawn()?;
        let out = Arc::new(Mutex::new(Vec::new()));
        let err = Arc::new(Mutex::new(Vec::new()));
        let eof = Arc::new(AtomicUsize::new(0));
        pump(child.stdout.take().unwrap(), out.clone(), eof.clone());
        pump(child.stderr.take().unwrap(), err.clone(), eof.clone());
        Ok(Proc { child, out, err, eof })
    }
    fn text(&self) -> String {
        let mut s = String::from_utf8_lossy(&self.out.lock().unwrap()).to_string();
        s.push_str(&String::from_utf8_lossy(&self.err.lock().unwrap()));
        s
    }
    fn version(&self) -> String {
        let t = self.text();
        for line in t.lines() {
            if let Some(v) = line.trim().strip_prefix("Protocol version: ") {
                return v.trim().to_string();
            }
        }
        "-".to_string()
    }
    fn finish(mut self) {
        let _ = self.child.kill();
        let _ = self.child.wait();
    }
}

fn contains(hay: &[u8], needle: &[u8]) -> bool {
    hay.windows(needle.len()).any(|w| w == needle)
}

fn offer_flag(offer: &str) -> Option<&'static str> {
    match offer {
        "12" => Some("-tls1_2"),
        "13" => Some("-tls1_3"),
        _ => None,
    }
}

fn wait_state(rx: &std::sync::mpsc::Receiver<ClientState>, limit: Duration) -> Option<bool> {
    // Some(true) = Connected, Some(false) = WaitAfterFailedConnect, None = neither in time
    let end = Instant::now() + limit;
    loop {
        let left = end.saturating_duration_since(Instant::now());
        match rx.recv_timeout(left) {
            Ok(ClientState::Connected) => return Some(true),
            Ok(ClientState::WaitAfterFailedConnect(_)) => return Some(false),
            Ok(_) => continue,
            Err(_) => return None,
        }
    }
}

#[allow(deprecated)]
fn client_config_deprecated(server_name: &str, trust: &str, cert: &str, key: &str, min: MinTlsVersion, mode: CertificateMode) -> Result<TlsClientConfig, String> {
    TlsClientConfig::new(server_name, Path::new(trust), Path::new(cert), Path::new(key), None, min, mode).map_err(|e| format!("CONFIG:{e}"))
}

fn client_config(kv: &HashMap<String, String>, p: &str, min: MinTlsVersion) -> Result<TlsClientConfig, String> {
    let trust = &kv[&format!("{p}trust")];
    let cert = &kv[&format!("{p}cert")];
    let key = &kv[&format!("{p}key")];
    let mode = kv.get(&format!("{p}mode")).map(|s| s.as_str()).unwrap_or("ca");
    if p.is_empty() && kv.get("ctor").map(|s| s.as_str()) == Some("new") {
        // the deprecated constructor TlsClientConfig::new (always carries a server name)
        let name = kv.get("name").cloned().unwrap_or_else(|| "test.com".to_string());
        let name = if name == "-" { "test.com".to_string() } else { name };
        return client_config_deprecated(&name, trust, cert, key, min, mode_of(mode));
    }
    let r = if mode == "ss" {
        TlsClientConfig::self_signed(Path::new(trust), Path::new(cert), Path::new(key), None, min)
    } else {
        let name = kv.get(&format!("{p}name")).cloned().unwrap_or_else(|| "-".to_string());
        let name = if name == "-" { None } else { Some(name) };
        TlsClientConfig::full_pki(name, Path::new(trust), Path::new(cert), Path::new(key), None, min)
    };
    r.map_err(|e| format!("CONFIG:{e}"))
}

fn server_config(kv: &HashMap<String, String>, p: &str, min: MinTlsVersion) -> Result<TlsServerConfig, String> {
    let trust = &kv[&format!("{p}trust")];
    let cert = &kv[&format!("{p}cert")];
    let key = &kv[&format!("{p}key")];
    let mode = kv.get(&format!("{p}mode")).map(|s| s.as_str()).unwrap_or("ca");
    TlsServerConfig::new(Path::new(trust), Path::new(cert), Path::new(key), None, min, mode_of(mode)).map_err(|e| format!("CONFIG:{e}"))
}

/// A TCP relay in front of a TLS endpoint that holds back everything (in particular the ClientHello) until it is
/// released: the endpoint behind it has accepted the connection and is waiting inside its handshake meanwhile.
struct Relay {
    addr: SocketAddr,
    release: Arc<std::sync::atomic::AtomicBool>,
    accepted: Arc<AtomicUsize>,
    stop: Arc<std::sync::atomic::AtomicBool>,
}

impl Drop for Relay {
    fn drop(&mut self) {
        self.stop.store(true, Ordering::SeqCst);
        self.release.store(true, Ordering::SeqCst);
    }
}

fn start_relay(ip: Ipv4Addr, target: SocketAddr) -> Option<Relay> {
    let listener = std::net::TcpListener::bind((ip, 0)).ok()?;
    let addr = listener.local_addr().ok()?;
    listener.set_nonblocking(true).ok()?;
    let release = Arc::new(std::sync::atomic::AtomicBool::new(false));
    let accepted = Arc::new(AtomicUsize::new(0));
    let stop = Arc::new(std::sync::atomic::AtomicBool::new(false));
    let (rel, acc, stp) = (release.clone(), accepted.clone(), stop.clone());
    std::thread::spawn(move || {
        while !stp.load(Ordering::SeqCst) {
            match listener.accept() {
                Ok((client, _)) => {
                    let _ = client.set_nonblocking(false);
                    let Ok(server) = std::net::TcpStream::connect(target) else { continue };
                    let _ = client.set_nodelay(true);
                    let _ = server.set_nodelay(true);
                    acc.fetch_add(1, Ordering::SeqCst);
                    for (mut from, mut to) in [(client.try_clone().unwrap(), server.try_clone().unwrap()), (server, client)] {
                        let (rel, stp) = (rel.clone(), stp.clone());
                        std::thread::spawn(move || {
                            while !rel.load(Ordering::SeqCst) && !stp.load(Ordering::SeqCst) {
                                std::thread::sleep(Duration::from_millis(2));
                            }
                            let mut buf = [0u8; 16384];
                            loop {
                                match from.read(&mut buf) {
                                    Ok(0) | Err(_) => break,
                                    Ok(n) => {
                                        if to.write_all(&buf[..n]).is_err() {
                                            break;
                                        }
                                    }
                                }
                            }
                            let _ = to.shutdown(std::net::Shutdown::Write);
                        });
                    }
                }
                Err(_) => std::thread::sleep(Duration::from_millis(2)),
            }
        }
    });
    Some(Relay { addr, release, accepted, stop })
}

/// while the relay holds the handshake back: `act` (a decode level change on the endpoint under test), then release
fn gate_controller(relay: &Relay, act: impl FnOnce()) {
    let end = Instant::now() + Duration::from_secs(10);
    while relay.accepted.load(Ordering::SeqCst) == 0 && Instant::now() < end {
        std::thread::sleep(Duration::from_millis(2));
    }
    // the endpoint behind the relay has accepted and waits for the ClientHello / the client waits for the ServerHello
    std::thread::sleep(Duration::from_millis(80));
    act();
    std::thread::sleep(Duration::from_millis(80));
    relay.release.store(true, Ordering::SeqCst);
}

fn chatty() -> DecodeLevel {
    DecodeLevel::new(AppDecodeLevel::DataValues, FrameDecodeLevel::Payload, PhysDecodeLevel::Data)
}

struct ServerUnderTest {
    handle: ServerHandle,
    addr: SocketAddr,
    calls: Arc<AtomicUsize>,
    roles: Arc<Mutex<Vec<String>>>,
}

fn start_server(rt: &tokio::runtime::Runtime, cfg: TlsServerConfig, authz: bool, ip: Ipv4Addr) -> Result<ServerUnderTest, String> {
    let calls = Arc::new(AtomicUsize::new(0));
    let roles = Arc::new(Mutex::new(Vec::new()));
    for _ in 0..20 {
        let addr = SocketAddr::from((ip, free_port(ip)));
        let map = ServerHandlerMap::single(UnitId::new(1), Handler { calls: calls.clone() }.wrap());
        let res = if authz {
            let a: Arc<dyn AuthorizationHandler> = Arc::new(Authz { roles: roles.clone() });
            rt.block_on(spawn_tls_server_task_with_authz(8, addr, map, a, cfg.clone(), AddressFilter::Any, DecodeLevel::nothing()))
        } else {
            rt.block_on(spawn_tls_server_task(8, addr, map, cfg.clone(), AddressFilter::Any, DecodeLevel::nothing()))
        };
        if let Ok(handle) = res {
            return Ok(ServerUnderTest { handle, addr, calls, roles });
        }
    }
    Err("NOSERVER".to_string())
}

fn run_rodbus_client(rt: &tokio::runtime::Runtime, cfg: TlsClientConfig, addr: SocketAddr, do_request: bool) -> (bool, bool) {
    run_rodbus_client_gated(rt, cfg, addr, do_request, None)
}

/// with a relay: the channel connects through it and its decode level is changed while its handshake is held back
fn run_rodbus_client_gated(rt: &tokio::runtime::Runtime, cfg: TlsClientConfig, addr: SocketAddr, do_request: bool, gate: Option<&Relay>) -> (bool, bool) {
    // returns (connected announced, request answered)
    let (tx, rx) = std::sync::mpsc::channel();
    let _g = rt.enter();
    let channel = spawn_tls_client_task(
        HostAddr::ip(addr.ip(), addr.port()),
        4,
        doubling_retry_strategy(Duration::from_secs(30), Duration::from_secs(30)),
        cfg,
        DecodeLevel::nothing(),
        Some(Box::new(StateListener { tx })),
    );
    let _ = rt.block_on(channel.enable());
    if let Some(relay) = gate {
        let ch = channel.clone();
        gate_controller(relay, || {
            let _ = rt.block_on(ch.set_decode_level(chatty()));
        });
    }
    let connected = wait_state(&rx, Duration::from_secs(15)) == Some(true);
    let mut answered = false;
    if connected && do_request {
        let param = RequestParam::new(UnitId::new(1), Duration::from_secs(2));
        let range = AddressRange::try_from(0, 1).unwrap();
        answered = matches!(rt.block_on(channel.read_holding_registers(param, range)), Ok(v) if v.len() == 1 && v[0].value == 42);
    }
    let _ = rt.block_on(channel.shutdown());
    (connected, answered)
}

// ---------------------------------------------------------------- the server created through the C ABI
extern "C" fn ffi_authz_read_holding(_unit: u8, _range: rodbus_ffi::ffi::AddressRange, role: *const std::os::raw::c_char, ctx: *mut std::os::raw::c_void) -> std::os::raw::c_int {
    let roles = unsafe { &*(ctx as *const Mutex<Vec<String>>) };
    let r = unsafe { std::ffi::CStr::from_ptr(role) }.to_string_lossy().to_string();
    roles.lock().unwrap().push(r);
    rodbus_ffi::ffi::Authorization::Allow.into()
}

extern "C" fn ffi_configure_db(db: *mut rodbus_ffi::Database, _ctx: *mut std::os::raw::c_void) {
    unsafe {
        rodbus_ffi::ffi::rodbus_database_add_holding_register(db, 0, 42);
    }
}

struct FfiServer {
    runtime: *mut rodbus_ffi::Runtime,
    server: *mut rodbus_ffi::Server,
    addr: SocketAddr,
    roles: &'static Mutex<Vec<String>>,
}

impl Drop for FfiServer {
    fn drop(&mut self) {
        unsafe {
            rodbus_ffi::ffi::rodbus_server_destroy(self.server);
            rodbus_ffi::ffi::rodbus_runtime_destroy(self.runtime);
        }
    }
}

fn start_ffi_server(kv: &HashMap<String, String>, ip: Ipv4Addr) -> Result<FfiServer, String> {
    use rodbus_ffi::ffi;
    use std::ffi::CString;
    let c = |k: &str| CString::new(kv[k].as_str()).unwrap();
    let (trust, cert, key, empty) = (c("trust"), c("cert"), c("key"), CString::new("").unwrap());
    let ipc = CString::new(ip.to_string()).unwrap();
    let roles: &'static Mutex<Vec<String>> = Box::leak(Box::new(Mutex::new(Vec::new())));
    unsafe {
        let mut runtime = std::ptr::null_mut();
        if ffi::rodbus_runtime_create(ffi::RuntimeConfig { num_core_threads: 2 }, &mut runtime) != 0 {
            return Err("NORUNTIME".to_string());
        }
        for _ in 0..20 {
            let port = free_port(ip);
            let map = ffi::rodbus_device_map_create();
            let wh = ffi::WriteHandler { write_single_coil: None, write_single_register: None, write_multiple_coils: None, write_multiple_registers: None, on_destroy: None, ctx: std::ptr::null_mut() };
            let dbc = ffi::DatabaseCallback { callback: Some(ffi_configure_db), on_destroy: None, ctx: std::ptr::null_mut() };
            ffi::rodbus_device_map_add_endpoint(map, 1, wh, dbc);
            let filter = ffi::rodbus_address_filter_any();
            let cfg: ffi::TlsServerConfig = ffi::TlsServerConfigFields {
                peer_cert_path: &trust,
                local_cert_path: &cert,
                private_key_path: &key,
                password: &empty,
                min_tls_version: if kv["min"] == "13" { ffi::MinTlsVersion::V13 } else { ffi::MinTlsVersion::V12 },
                certificate_mode: if kv["mode"] == "ss" { ffi::CertificateMode::SelfSigned } else { ffi::CertificateMode::AuthorityBased },
            }
            .into();
            let decode = ffi::DecodeLevel { app: 0, frame: 0, physical: 0 };
            let mut server = std::ptr::null_mut();
            let rc = if kv["authz"] == "1" {
                let ah = ffi::AuthorizationHandler {
                    read_coils: None,
                    read_discrete_inputs: None,
                    read_holding_registers: Some(ffi_authz_read_holding),
                    read_input_registers: None,
                    write_single_coil: None,
                    write_single_register: None,
                    write_multiple_coils: None,
                    write_multiple_registers: None,
                    on_destroy: None,
                    ctx: roles as *const Mutex<Vec<String>> as *mut std::os::raw::c_void,
                };
                ffi::rodbus_server_create_tls_with_authz(runtime, ipc.as_ptr(), port, filter, 8, map, cfg, ah, decode, &mut server)
            } else {
                ffi::rodbus_server_create_tls(runtime, ipc.as_ptr(), port, filter, 8, map, cfg, decode, &mut server)
            };
            ffi::rodbus_address_filter_destroy(filter);
            ffi::rodbus_device_map_destroy(map);
            if rc == 0 && !server.is_null() {
                return Ok(FfiServer { runtime, server, addr: SocketAddr::from((ip, port)), roles });
            }
        }
        ffi::rodbus_runtime_destroy(runtime);
    }
    Err("NOSERVER".to_string())
}

extern "C" fn ffi_client_state(state: std::os::raw::c_int, ctx: *mut std::os::raw::c_void) {
    let tx = unsafe { &*(ctx as *const Mutex<std::sync::mpsc::Sender<i32>>) };
    let _ = tx.lock().unwrap().send(state);
}

/// returns Some(true) = Connected announced, Some(false) = WaitAfterFailedConnect, None = neither / creation failed
fn run_ffi_client(kv: &HashMap<String, String>, addr: SocketAddr) -> Result<Option<bool>, String> {
    use rodbus_ffi::ffi;
    use std::ffi::CString;
    let c = |k: &str| CString::new(kv[k].as_str()).unwrap();
    let (trust, cert, key, empty) = (c("trust"), c("cert"), c("key"), CString::new("").unwrap());
    let name = kv.get("name").cloned().unwrap_or_else(|| "-".to_string());
    // wildcard=<0|1> sets allow_server_name_wildcard explicitly and name is passed as dns_name verbatim ("*" included);
    // without it: name "-" means "no expected name" = dns_name "*" with the wildcard permitted
    let (wildcard, dns_text) = match kv.get("wildcard").map(|s| s.as_str()) {
        Some(w) => (w == "1", name.clone()),
        None => (name == "-", if name == "-" { "*".to_string() } else { name.clone() }),
    };
    let dns = CString::new(dns_text.as_str()).unwrap();
    let host = CString::new(addr.ip().to_string()).unwrap();
    let (tx, rx) = std::sync::mpsc::channel::<i32>();
    let ctx: &'static Mutex<std::sync::mpsc::Sender<i32>> = Box::leak(Box::new(Mutex::new(tx)));
    unsafe {
        let mut runtime = std::ptr::null_mut();
        if ffi::rodbus_runtime_create(ffi::RuntimeConfig { num_core_threads: 2 }, &mut runtime) != 0 {
            return Err("NORUNTIME".to_string());
        }
        let cfg: ffi::TlsClientConfig = ffi::TlsClientConfigFields {
            dns_name: &dns,
            peer_cert_path: &trust,
            local_cert_path: &cert,
            private_key_path: &key,
            password: &empty,
            min_tls_version: if kv["min"] == "13" { ffi::MinTlsVersion::V13 } else { ffi::MinTlsVersion::V12 },
            certificate_mode: if kv["mode"] == "ss" { ffi::CertificateMode::SelfSigned } else { ffi::CertificateMode::AuthorityBased },
            allow_server_name_wildcard: wildcard,
        }
        .into();
        let listener = ffi::ClientStateListener { on_change: Some(ffi_client_state), on_destroy: None, ctx: ctx as *const _ as *mut std::os::raw::c_void };
        let mut channel = std::ptr::null_mut();
        let rc = ffi::rodbus_client_channel_create_tls(
            runtime,
            host.as_ptr(),
            addr.port(),
            4,
            ffi::RetryStrategy { min_delay: 30000, max_delay: 30000 },
            cfg,
            ffi::DecodeLevel { app: 0, frame: 0, physical: 0 },
            listener,
            &mut channel,
        );
        if rc != 0 || channel.is_null() {
            ffi::rodbus_runtime_destroy(runtime);
            return Err(format!("CONFIG:{rc}"));
        }
        ffi::rodbus_client_channel_enable(channel);
        let end = Instant::now() + Duration::from_secs(15);
        let mut res = None;
        loop {
            let left = end.saturating_duration_since(Instant::now());
            match rx.recv_timeout(left) {
                Ok(2) => {
                    res = Some(true);
                    break;
                }
                Ok(3) => {
                    res = Some(false);
                    break;
                }
                Ok(_) => continue,
                Err(_) => break,
            }
        }
        ffi::rodbus_client_channel_destroy(channel);
        ffi::rodbus_runtime_destroy(runtime);
        Ok(res)
    }
}

fn openssl_client_exchange(openssl: &str, addr: SocketAddr, pcert: &str, pkey: &str, ptrust: &str, offer: &str, pchain: &str) -> Result<(bool, String), String> {
    let mut cmd = Command::new(openssl);
    cmd.args(["s_client", "-connect", &addr.to_string(), "-cert", pcert, "-key", pkey, "-CAfile", ptrust, "-brief", "-ign_eof"]);
    if !pchain.is_empty() {
        cmd.args(["-cert_chain", pchain]);
    }
    if let Some(f) = offer_flag(offer) {
        cmd.arg(f);
    }
    let mut p = Proc::spawn(cmd).map_err(|_| "NOOPENSSL".to_string())?;
    if let Some(mut stdin) = p.child.stdin.take() {
        let _ = stdin.write_all(&REQUEST);
        let _ = stdin.flush();
        let end = Instant::now() + Duration::from_secs(15);
        loop {
            if contains(&p.out.lock().unwrap(), &REPLY) || p.eof.load(Ordering::SeqCst) >= 2 || Instant::now() > end {
                break;
            }
            std::thread::sleep(Duration::from_millis(5));
        }
        drop(stdin);
    }
    let ok = contains(&p.out.lock().unwrap(), &REPLY);
    // openssl prints its summary on another stream: give it a moment
    let end = Instant::now() + Duration::from_millis(if ok { 300 } else { 20 });
    while p.version() == "-" && Instant::now() < end {
        std::thread::sleep(Duration::from_millis(2));
    }
    let version = p.version();
    p.finish();
    Ok((ok, version))
}

fn cell(rt: &tokio::runtime::Runtime, line: &str, openssl: &str, ip: Ipv4Addr) -> String {
    let kv: HashMap<String, String> = line
        .split_whitespace()
        .filter_map(|t| t.split_once('=').map(|(a, b)| (a.to_string(), b.to_string())))
        .collect();
    let get = |k: &str| kv.get(k).cloned().unwrap_or_default();
    let min = min_of(&get("min"));
    let offer = get("offer");
    let peer = get("peer");
    if get("side") == "ffiserver" {
        // the handler of a C-ABI server is its database (no callback on reads): calls = 1 iff answered
        let sut = match start_ffi_server(&kv, ip) {
            Ok(s) => s,
            Err(e) => return e,
        };
        let (ok, version) = match openssl_client_exchange(openssl, sut.addr, &get("pcert"), &get("pkey"), &get("ptrust"), &offer, &get("pchain")) {
            Ok(x) => x,
            Err(e) => return e,
        };
        if !ok {
            std::thread::sleep(Duration::from_millis(50));
        }
        let roles = sut.roles.lock().unwrap().clone();
        drop(sut);
        return format!("{}:{}:{}:{}", if ok { "OK" } else { "REFUSED" }, version, if roles.is_empty() { "-".to_string() } else { roles.join(",") }, if ok { 1 } else { 0 });
    }
    if get("side") == "server" {
        let cfg = match server_config(&kv, "", min) {
            Ok(c) => c,
            Err(e) => return e,
        };
        let sut = match start_server(rt, cfg, get("authz") == "1", ip) {
            Ok(s) => s,
            Err(e) => return e,
        };
        let mut sut = sut;
        // stuck=silent|partial|plain: BEFORE the peer, another connection is accepted by the server and kept open for the
        // whole cell: it sends nothing / the first 9 bytes of a ClientHello / a Modbus request in clear. It must not
        // keep the peer behind it from being admitted.
        let _stuck: Option<std::net::TcpStream> = match get("stuck").as_str() {
            "" => None,
            kind => match std::net::TcpStream::connect(sut.addr) {
                Ok(mut s) => {
                    match kind {
                        "partial" => {
                            let _ = s.write_all(&[0x16, 0x03, 0x01, 0x02, 0x00, 0x01, 0x00, 0x01, 0xFC]);
                        }
                        "plain" => {
                            let _ = s.write_all(&REQUEST);
                        }
                        _ => {}
                    }
                    std::thread::sleep(Duration::from_millis(60));
                    Some(s)
                }
                Err(_) => return "NOSTUCK".to_string(),
            },
        };
        let mut version = "-".to_string();
        let ok;
        // gate=level: the peer reaches the server through a relay that holds its ClientHello back; meanwhile the
        // decode level of the server is changed through its handle; then the handshake goes on
        let gated = get("gate") == "level";
        let relay = if gated {
            match start_relay(ip, sut.addr) {
                Some(r) => Some(r),
                None => return "NORELAY".to_string(),
            }
        } else {
            None
        };
        let peer_addr = relay.as_ref().map(|r| r.addr).unwrap_or(sut.addr);
        let handle = &mut sut.handle;
        let res: Result<(bool, String), String> = std::thread::scope(|scope| {
            if let Some(r) = relay.as_ref() {
                scope.spawn(move || {
                    gate_controller(r, || {
                        let _ = rt.block_on(handle.set_decode_level(chatty()));
                    })
                });
            }
            match peer.as_str() {
                "openssl" => openssl_client_exchange(openssl, peer_addr, &get("pcert"), &get("pkey"), &get("ptrust"), &offer, &get("pchain")),
                "rodbus" if gated => {
                    let pmin = if offer == "13" { MinTlsVersion::V1_3 } else { MinTlsVersion::V1_2 };
                    match client_config(&kv, "p", pmin) {
                        Ok(ccfg) => Ok((run_rodbus_client(rt, ccfg, peer_addr, true).1, "-".to_string())),
                        Err(e) => Err(e),
                    }
                }
                _ => Ok((false, "UNGATED".to_string())),
            }
        });
        match peer.as_str() {
            "openssl" => match res {
                Ok((o, v)) => {
                    ok = o;
                    version = v;
                }
                Err(e) => return e,
            },
            "rodbus" if gated => match res {
                Ok((o, _)) => ok = o,
                Err(e) => return e,
            },
            "rodbus" => {
                let pmin = if offer == "13" { MinTlsVersion::V1_3 } else { MinTlsVersion::V1_2 };
                let ccfg = match client_config(&kv, "p", pmin) {
                    Ok(c) => c,
                    Err(e) => return e,
                };
                let (_connected, answered) = run_rodbus_client(rt, ccfg, sut.addr, true);
                ok = answered;
            }
            "plain" => {
                // Modbus in clear text to the TLS port: must never be answered nor reach the handler
                let mut got = Vec::new();
                if let Ok(mut s) = std::net::TcpStream::connect(sut.addr) {
                    let _ = s.set_read_timeout(Some(Duration::from_millis(400)));
                    let _ = s.write_all(&REQUEST);
                    let mut buf = [0u8; 64];
                    if let Ok(n) = s.read(&mut buf) {
                        got.extend_from_slice(&buf[..n]);
                    }
                }
                ok = contains(&got, &REPLY);
            }
            _ => return "BADPEER".to_string(),
        }
        // let a late handler call (there must be none in refused cells) show up
        if !ok {
            std::thread::sleep(Duration::from_millis(50));
        }
        let roles = sut.roles.lock().unwrap().clone();
        let calls = sut.calls.load(Ordering::SeqCst);
        drop(sut.handle);
        format!("{}:{}:{}:{}", if ok { "OK" } else { "REFUSED" }, version, if roles.is_empty() { "-".to_string() } else { roles.join(",") }, calls)
    } else {
        let cfg = match client_config(&kv, "", min) {
            Ok(c) => c,
            Err(e) => return e,
        };
        match peer.as_str() {
            "openssl" => {
                let addr = SocketAddr::from((ip, free_port(ip)));
                let mut cmd = Command::new(openssl);
                cmd.args(["s_server", "-accept", &addr.to_string(), "-cert", &get("pcert"), "-key", &get("pkey"), "-CAfile", &get("ptrust"), "-Verify", "2", "-brief", "-quiet"]);
                if let Some(f) = offer_flag(&offer) {
                    cmd.arg(f);
                }
                if !get("pchain").is_empty() {
                    cmd.args(["-cert_chain", &get("pchain")]);
                }
                let p = match Proc::spawn(cmd) {
                    Ok(p) => p,
                    Err(_) => return "NOOPENSSL".to_string(),
                };
                // wait until the port accepts (the probe connection is dropped at once)
                let end = Instant::now() + Duration::from_secs(15);
                let mut up = false;
                while Instant::now() < end {
                    if std::net::TcpStream::connect(addr).is_ok() {
                        up = true;
                        break;
                    }
                    std::thread::sleep(Duration::from_millis(10));
                }
                if !up {
                    let t = p.text();
                    p.finish();
                    return format!("NOPEER:{}", t.lines().next().unwrap_or(""));
                }
                let relay = if get("gate") == "level" && get("side") == "client" {
                    match start_relay(ip, addr) {
                        Some(r) => Some(r),
                        None => {
                            p.finish();
                            return "NORELAY".to_string();
                        }
                    }
                } else {
                    None
                };
                let connected = if let Some(r) = relay.as_ref() {
                    run_rodbus_client_gated(rt, cfg, r.addr, false, Some(r)).0
                } else if get("side") == "fficlient" {
                    match run_ffi_client(&kv, addr) {
                        Ok(r) => r == Some(true),
                        Err(e) => {
                            p.finish();
                            return e;
                        }
                    }
                } else {
                    run_rodbus_client(rt, cfg, addr, false).0
                };
                // give s_server a moment to print its summary
                let end = Instant::now() + Duration::from_millis(if connected { 1500 } else { 100 });
                while Instant::now() < end && p.version() == "-" {
                    std::thread::sleep(Duration::from_millis(5));
                }
                let version = p.version();
                p.finish();
                format!("{}:{}:-:0", if connected { "OK" } else { "REFUSED" }, version)
            }
            "rodbus" => {
                let pmin = if offer == "13" { MinTlsVersion::V1_3 } else { MinTlsVersion::V1_2 };
                let scfg = match server_config(&kv, "p", pmin) {
                    Ok(c) => c,
                    Err(e) => return e,
                };
                let peer_server = match start_server(rt, scfg, get("pauthz") == "1", ip) {
                    Ok(s) => s,
                    Err(e) => return e,
                };
                let relay = if get("gate") == "level" { start_relay(ip, peer_server.addr) } else { None };
                let (connected, answered) = match relay.as_ref() {
                    Some(r) => run_rodbus_client_gated(rt, cfg, r.addr, true, Some(r)),
                    None => run_rodbus_client(rt, cfg, peer_server.addr, true),
                };
                let calls = peer_server.calls.load(Ordering::SeqCst);
                drop(peer_server.handle);
                // TLS1.3: the client announces Connected before the server has judged the client's
                // certificate; the cells of this side use a client certificate the peer accepts, so
                // Connected and answered coincide
                format!("{}:-:-:{}", if connected && answered { "OK" } else if connected { "CONNECTED-UNANSWERED" } else { "REFUSED" }, calls)
            }
            _ => "BADPEER".to_string(),
        }
    }
}

pub fn main(args: &[String]) -> i32 {
    crate::util::quiet_panics();
    // sfio-rustls-config 0.4.0 (server.rs:135) println!s "client result: .." on every client
    // certificate verification: keep the result channel clean by moving fd 1 to stderr and
    // writing the result lines to the original stdout
    let mut result_out: std::fs::File = unsafe {
        use std::os::fd::FromRawFd;
        let saved = libc::dup(1);
        libc::dup2(2, 1);
        std::fs::File::from_raw_fd(saved)
    };
    let openssl = args.first().cloned().unwrap_or_else(|| "/root/miniconda/bin/openssl".to_string());
    let lines: Vec<String> = crate::util::stdin_lines().collect();
    let n = lines.len();
    let lines = Arc::new(lines);
    let results = Arc::new(Mutex::new(vec![String::new(); n]));
    let next = Arc::new(AtomicUsize::new(0));
    let rt = Arc::new(tokio::runtime::Builder::new_multi_thread().worker_threads(4).enable_all().build().unwrap());
    let pid = std::process::id();
    let workers: Vec<_> = (0..8.min(n.max(1)))
        .map(|_| {
            let (lines, results, next, rt, openssl) = (lines.clone(), results.clone(), next.clone(), rt.clone(), openssl.clone());
            std::thread::spawn(move || loop {
                let k = next.fetch_add(1, Ordering::SeqCst);
                if k >= lines.len() {
                    break;
                }
                let ip = Ipv4Addr::new(127, 1 + (pid % 200) as u8, (k / 250 % 250) as u8, (k % 250 + 1) as u8);
                let line = lines[k].clone();
                let rt2 = rt.clone();
                let o = openssl.clone();
                let r = std::panic::catch_unwind(std::panic::AssertUnwindSafe(move || cell(&rt2, &line, &o, ip))).unwrap_or_else(|_| "PANIC".to_string());
                results.lock().unwrap()[k] = r;
            })
        })
        .collect();
    for w in workers {
        let _ = w.join();
    }
    for r in results.lock().unwrap().iter() {
        let _ = writeln!(result_out, "{r}");
    }
    let _ = result_out.flush();
    0
}
