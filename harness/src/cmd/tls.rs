//! C09: one TLS handshake cell per input line, the rodbus endpoint under test on loopback against
//! an independent peer (`openssl s_client` / `s_server`), another rodbus endpoint, or a plain TCP
//! peer that talks Modbus in clear.
//!
//! input line: space separated key=value
//!   side=server|client          which rodbus endpoint is under test
//!   min=12|13  mode=ca|ss  authz=0|1 (server side)  name=<expected server name>|- (client side, ca mode)
//!   trust=<pem> cert=<pem> key=<pem>      material of the endpoint under test (trust = peer_cert_path)
//!   peer=openssl|rodbus|plain   offer=12|13|both
//!   pmode=ca|ss ptrust=<pem> pcert=<pem> pkey=<pem>   material of the peer
//! output line:  <OK|REFUSED>:<negotiated version as reported by openssl or ->:<roles seen by the
//!   authorization handler, ','-separated, or ->:<number of request-handler calls>
//!   OK = a Modbus request was answered through the session (server side) / the client task
//!   announced Connected (client side; with a rodbus peer also: a request was answered)
//! args: [openssl binary]  (default /root/miniconda/bin/openssl)
use std::collections::HashMap;
use std::io::{Read, Write};
use std::net::{Ipv4Addr, SocketAddr};
use std::path::Path;
use std::process::{Child, Command, Stdio};
use std::sync::atomic::{AtomicUsize, Ordering};
use std::sync::{Arc, Mutex};
use std::time::{Duration, Instant};

use rodbus::client::*;
use rodbus::server::*;
use rodbus::*;

struct Handler {
    calls: Arc<AtomicUsize>,
}
impl RequestHandler for Handler {
    fn read_holding_register(&self, _address: u16) -> Result<u16, ExceptionCode> {
        self.calls.fetch_add(1, Ordering::SeqCst);
        Ok(42)
    }
}

struct Authz {
    roles: Arc<Mutex<Vec<String>>>,
}
impl AuthorizationHandler for Authz {
    fn read_holding_registers(&self, _unit_id: UnitId, _range: AddressRange, role: &str) -> Authorization {
        self.roles.lock().unwrap().push(role.to_string());
        Authorization::Allow
    }
}

struct StateListener {
    tx: std::sync::mpsc::Sender<ClientState>,
}
impl Listener<ClientState> for StateListener {
    fn update(&mut self, value: ClientState) -> MaybeAsync<()> {
        let _ = self.tx.send(value);
        MaybeAsync::ready(())
    }
}

const REQUEST: [u8; 12] = [0, 1, 0, 0, 0, 6, 1, 3, 0, 0, 0, 1];
const REPLY: [u8; 11] = [0, 1, 0, 0, 0, 5, 1, 3, 2, 0, 42];

fn min_of(s: &str) -> MinTlsVersion {
    if s == "13" {
        MinTlsVersion::V1_3
    } else {
        MinTlsVersion::V1_2
    }
}
fn mode_of(s: &str) -> CertificateMode {
    if s == "ss" {
        CertificateMode::SelfSigned
    } else {
        CertificateMode::AuthorityBased
    }
}

fn free_port(ip: Ipv4Addr) -> u16 {
    std::net::TcpListener::bind((ip, 0)).expect("bind").local_addr().unwrap().port()
}

struct Proc {
    child: Child,
    out: Arc<Mutex<Vec<u8>>>,
    err: Arc<Mutex<Vec<u8>>>,
    eof: Arc<AtomicUsize>,
}

fn pump<R: Read + Send + 'static>(mut r: R, sink: Arc<Mutex<Vec<u8>>>, eof: Arc<AtomicUsize>) {
    std::thread::spawn(move || {
        let mut buf = [0u8; 4096];
        loop {
            match r.read(&mut buf) {
                Ok(0) | Err(_) => break,
                Ok(n) => sink.lock().unwrap().extend_from_slice(&buf[..n]),
            }
        }
        eof.fetch_add(1, Ordering::SeqCst);
    });
}

impl Proc {
    fn spawn(mut cmd: Command) -> std::io::Result<Proc> {
        let mut child = cmd.stdin(Stdio::piped()).stdout(Stdio::piped()).stderr(Stdio::piped()).spawn()?;
        let out = Arc::new(Mutex::new(Vec::new()));
        let err = Arc::new(Mutex::new(Vec::new()));
        let eof = Arc::new(AtomicUsize::new(0));
        pump(child.stdout.take().unwrap(), out.clone(), eof.clone());
        pump(child.stderr.take().unwrap(), err.clone(), eof.clone());
        Ok(Proc { child, out, err, eof })
    }
    fn text(&self) -> String {
        let mut s = String::from_utf8_lossy(&self.out.lock().unwrap()).to_string();
        s.push_str(&String::from_utf8_lossy(&self.err.lock().unwrap()));
        s
    }
    fn version(&self) -> String {
        let t = self.text();
        for line in t.lines() {
            if let Some(v) = line.trim().strip_prefix("Protocol version: ") {
                return v.trim().to_string();
            }
        }
        "-".to_string()
    }
    fn finish(mut self) {
        let _ = self.child.kill();
        let _ = self.child.wait();
    }
}

fn contains(hay: &[u8], needle: &[u8]) -> bool {
    hay.windows(needle.len()).any(|w| w == needle)
}

fn offer_flag(offer: &str) -> Option<&'static str> {
    match offer {
        "12" => Some("-tls1_2"),
        "13" => Some("-tls1_3"),
        _ => None,
    }
}

fn wait_state(rx: &std::sync::mpsc::Receiver<ClientState>, limit: Duration) -> Option<bool> {
    // Some(true) = Connected, Some(false) = WaitAfterFailedConnect, None = neither in time
    let end = Instant::now() + limit;
    loop {
        let left = end.saturating_duration_since(Instant::now());
        match rx.recv_timeout(left) {
            Ok(ClientState::Connected) => return Some(true),
            Ok(ClientState::WaitAfterFailedConnect(_)) => return Some(false),
            Ok(_) => continue,
            Err(_) => return None,
        }
    }
}

fn client_config(kv: &HashMap<String, String>, p: &str, min: MinTlsVersion) -> Result<TlsClientConfig, String> {
    let trust = &kv[&format!("{p}trust")];
    let cert = &kv[&format!("{p}cert")];
    let key = &kv[&format!("{p}key")];
    let mode = kv.get(&format!("{p}mode")).map(|s| s.as_str()).unwrap_or("ca");
    let r = if mode == "ss" {
        TlsClientConfig::self_signed(Path::new(trust), Path::new(cert), Path::new(key), None, min)
    } else {
        let name = kv.get(&format!("{p}name")).cloned().unwrap_or_else(|| "-".to_string());
        let name = if name == "-" { None } else { Some(name) };
        TlsClientConfig::full_pki(name, Path::new(trust), Path::new(cert), Path::new(key), None, min)
    };
    r.map_err(|e| format!("CONFIG:{e}"))
}

fn server_config(kv: &HashMap<String, String>, p: &str, min: MinTlsVersion) -> Result<TlsServerConfig, String> {
    let trust = &kv[&format!("{p}trust")];
    let cert = &kv[&format!("{p}cert")];
    let key = &kv[&format!("{p}key")];
    let mode = kv.get(&format!("{p}mode")).map(|s| s.as_str()).unwrap_or("ca");
    TlsServerConfig::new(Path::new(trust), Path::new(cert), Path::new(key), None, min, mode_of(mode)).map_err(|e| format!("CONFIG:{e}"))
}

struct ServerUnderTest {
    handle: ServerHandle,
    addr: SocketAddr,
    calls: Arc<AtomicUsize>,
    roles: Arc<Mutex<Vec<String>>>,
}

fn start_server(rt: &tokio::runtime::Runtime, cfg: TlsServerConfig, authz: bool, ip: Ipv4Addr) -> Result<ServerUnderTest, String> {
    let calls = Arc::new(AtomicUsize::new(0));
    let roles = Arc::new(Mutex::new(Vec::new()));
    for _ in 0..20 {
        let addr = SocketAddr::from((ip, free_port(ip)));
        let map = ServerHandlerMap::single(UnitId::new(1), Handler { calls: calls.clone() }.wrap());
        let res = if authz {
            let a: Arc<dyn AuthorizationHandler> = Arc::new(Authz { roles: roles.clone() });
            rt.block_on(spawn_tls_server_task_with_authz(8, addr, map, a, cfg.clone(), AddressFilter::Any, DecodeLevel::nothing()))
        } else {
            rt.block_on(spawn_tls_server_task(8, addr, map, cfg.clone(), AddressFilter::Any, DecodeLevel::nothing()))
        };
        if let Ok(handle) = res {
            return Ok(ServerUnderTest { handle, addr, calls, roles });
        }
    }
    Err("NOSERVER".to_string())
}

fn run_rodbus_client(rt: &tokio::runtime::Runtime, cfg: TlsClientConfig, addr: SocketAddr, do_request: bool) -> (bool, bool) {
    // returns (connected announced, request answered)
    let (tx, rx) = std::sync::mpsc::channel();
    let _g = rt.enter();
    let channel = spawn_tls_client_task(
        HostAddr::ip(addr.ip(), addr.port()),
        4,
        doubling_retry_strategy(Duration::from_secs(30), Duration::from_secs(30)),
        cfg,
        DecodeLevel::nothing(),
        Some(Box::new(StateListener { tx })),
    );
    let _ = rt.block_on(channel.enable());
    let connected = wait_state(&rx, Duration::from_secs(5)) == Some(true);
    let mut answered = false;
    if connected && do_request {
        let param = RequestParam::new(UnitId::new(1), Duration::from_secs(2));
        let range = AddressRange::try_from(0, 1).unwrap();
        answered = matches!(rt.block_on(channel.read_holding_registers(param, range)), Ok(v) if v.len() == 1 && v[0].value == 42);
    }
    let _ = rt.block_on(channel.shutdown());
    (connected, answered)
}

fn cell(rt: &tokio::runtime::Runtime, line: &str, openssl: &str, ip: Ipv4Addr) -> String {
    let kv: HashMap<String, String> = line
        .split_whitespace()
        .filter_map(|t| t.split_once('=').map(|(a, b)| (a.to_string(), b.to_string())))
        .collect();
    let get = |k: &str| kv.get(k).cloned().unwrap_or_default();
    let min = min_of(&get("min"));
    let offer = get("offer");
    let peer = get("peer");
    if get("side") == "server" {
        let cfg = match server_config(&kv, "", min) {
            Ok(c) => c,
            Err(e) => return e,
        };
        let sut = match start_server(rt, cfg, get("authz") == "1", ip) {
            Ok(s) => s,
            Err(e) => return e,
        };
        let mut version = "-".to_string();
        let ok;
        match peer.as_str() {
            "openssl" => {
                let mut cmd = Command::new(openssl);
                cmd.args(["s_client", "-connect", &sut.addr.to_string(), "-cert", &get("pcert"), "-key", &get("pkey"), "-CAfile", &get("ptrust"), "-brief", "-ign_eof"]);
                if let Some(f) = offer_flag(&offer) {
                    cmd.arg(f);
                }
                let mut p = match Proc::spawn(cmd) {
                    Ok(p) => p,
                    Err(_) => return "NOOPENSSL".to_string(),
                };
                if let Some(mut stdin) = p.child.stdin.take() {
                    let _ = stdin.write_all(&REQUEST);
                    let _ = stdin.flush();
                    // keep stdin open until the verdict is in
                    let end = Instant::now() + Duration::from_secs(6);
                    loop {
                        if contains(&p.out.lock().unwrap(), &REPLY) || p.eof.load(Ordering::SeqCst) >= 2 || Instant::now() > end {
                            break;
                        }
                        std::thread::sleep(Duration::from_millis(5));
                    }
                    drop(stdin);
                }
                ok = contains(&p.out.lock().unwrap(), &REPLY);
                version = p.version();
                p.finish();
            }
            "rodbus" => {
                let pmin = if offer == "13" { MinTlsVersion::V1_3 } else { MinTlsVersion::V1_2 };
                let ccfg = match client_config(&kv, "p", pmin) {
                    Ok(c) => c,
                    Err(e) => return e,
                };
                let (_connected, answered) = run_rodbus_client(rt, ccfg, sut.addr, true);
                ok = answered;
            }
            "plain" => {
                // Modbus in clear text to the TLS port: must never be answered nor reach the handler
                let mut got = Vec::new();
                if let Ok(mut s) = std::net::TcpStream::connect(sut.addr) {
                    let _ = s.set_read_timeout(Some(Duration::from_millis(400)));
                    let _ = s.write_all(&REQUEST);
                    let mut buf = [0u8; 64];
                    if let Ok(n) = s.read(&mut buf) {
                        got.extend_from_slice(&buf[..n]);
                    }
                }
                ok = contains(&got, &REPLY);
            }
            _ => return "BADPEER".to_string(),
        }
        // let a late handler call (there must be none in refused cells) show up
        if !ok {
            std::thread::sleep(Duration::from_millis(50));
        }
        let roles = sut.roles.lock().unwrap().clone();
        let calls = sut.calls.load(Ordering::SeqCst);
        drop(sut.handle);
        format!("{}:{}:{}:{}", if ok { "OK" } else { "REFUSED" }, version, if roles.is_empty() { "-".to_string() } else { roles.join(",") }, calls)
    } else {
        let cfg = match client_config(&kv, "", min) {
            Ok(c) => c,
            Err(e) => return e,
        };
        match peer.as_str() {
            "openssl" => {
                let addr = SocketAddr::from((ip, free_port(ip)));
                let mut cmd = Command::new(openssl);
                cmd.args(["s_server", "-accept", &addr.to_string(), "-cert", &get("pcert"), "-key", &get("pkey"), "-CAfile", &get("ptrust"), "-Verify", "2", "-brief", "-quiet"]);
                if let Some(f) = offer_flag(&offer) {
                    cmd.arg(f);
                }
                let p = match Proc::spawn(cmd) {
                    Ok(p) => p,
                    Err(_) => return "NOOPENSSL".to_string(),
                };
                // wait until the port accepts (the probe connection is dropped at once)
                let end = Instant::now() + Duration::from_secs(5);
                let mut up = false;
                while Instant::now() < end {
                    if std::net::TcpStream::connect(addr).is_ok() {
                        up = true;
                        break;
                    }
                    std::thread::sleep(Duration::from_millis(10));
                }
                if !up {
                    let t = p.text();
                    p.finish();
                    return format!("NOPEER:{}", t.lines().next().unwrap_or(""));
                }
                let (connected, _) = run_rodbus_client(rt, cfg, addr, false);
                // give s_server a moment to print its summary
                let end = Instant::now() + Duration::from_millis(if connected { 1500 } else { 100 });
                while Instant::now() < end && p.version() == "-" {
                    std::thread::sleep(Duration::from_millis(5));
                }
                let version = p.version();
                p.finish();
                format!("{}:{}:-:0", if connected { "OK" } else { "REFUSED" }, version)
            }
            "rodbus" => {
                let pmin = if offer == "13" { MinTlsVersion::V1_3 } else { MinTlsVersion::V1_2 };
                let scfg = match server_config(&kv, "p", pmin) {
                    Ok(c) => c,
                    Err(e) => return e,
                };
                let peer_server = match start_server(rt, scfg, get("pauthz") == "1", ip) {
                    Ok(s) => s,
                    Err(e) => return e,
                };
                let (connected, answered) = run_rodbus_client(rt, cfg, peer_server.addr, true);
                let calls = peer_server.calls.load(Ordering::SeqCst);
                drop(peer_server.handle);
                // TLS1.3: the client announces Connected before the server has judged the client's
                // certificate; the cells of this side use a client certificate the peer accepts, so
                // Connected and answered coincide
                format!("{}:-:-:{}", if connected && answered { "OK" } else if connected { "CONNECTED-UNANSWERED" } else { "REFUSED" }, calls)
            }
            _ => "BADPEER".to_string(),
        }
    }
}

pub fn main(args: &[String]) -> i32 {
    crate::util::quiet_panics();
    // sfio-rustls-config 0.4.0 (server.rs:135) println!s "client result: .." on every client
    // certificate verification: keep the result channel clean by moving fd 1 to stderr and
    // writing the result lines to the original stdout
    let mut result_out: std::fs::File = unsafe {
        use std::os::fd::FromRawFd;
        let saved = libc::dup(1);
        libc::dup2(2, 1);
        std::fs::File::from_raw_fd(saved)
    };
    let openssl = args.first().cloned().unwrap_or_else(|| "/root/miniconda/bin/openssl".to_string());
    let lines: Vec<String> = crate::util::stdin_lines().collect();
    let n = lines.len();
    let lines = Arc::new(lines);
    let results = Arc::new(Mutex::new(vec![String::new(); n]));
    let next = Arc::new(AtomicUsize::new(0));
    let rt = Arc::new(tokio::runtime::Builder::new_multi_thread().worker_threads(4).enable_all().build().unwrap());
    let pid = std::process::id();
    let workers: Vec<_> = (0..8.min(n.max(1)))
        .map(|_| {
            let (lines, results, next, rt, openssl) = (lines.clone(), results.clone(), next.clone(), rt.clone(), openssl.clone());
            std::thread::spawn(move || loop {
                let k = next.fetch_add(1, Ordering::SeqCst);
                if k >= lines.len() {
                    break;
                }
                let ip = Ipv4Addr::new(127, 1 + (pid % 200) as u8, (k / 250 % 250) as u8, (k % 250 + 1) as u8);
                let line = lines[k].clone();
                let rt2 = rt.clone();
                let o = openssl.clone();
                let r = std::panic::catch_unwind(std::panic::AssertUnwindSafe(move || cell(&rt2, &line, &o, ip))).unwrap_or_else(|_| "PANIC".to_string());
                results.lock().unwrap()[k] = r;
            })
        })
        .collect();
    for w in workers {
        let _ = w.join();
    }
    for r in results.lock().unwrap().iter() {
        let _ = writeln!(result_out, "{r}");
    }
    let _ = result_out.flush();
    0
}
