//! C13, serial half (black box, no hook): the real RTU client task (`create_rtu_client_task`) on a pty.
//! The task is given a path that is a symlink managed by the script: absent => the open fails,
//! present => it points to the slave side of a fresh pty whose master side the harness serves.
//! Real time; assertions are on ORDER only.
//!
//! input line:  rmin=<ms> rmax=<ms> | <step> ...
//!   link / unlink        the port path appears (new pty) / disappears
//!   hup                  the harness closes the master side of the current pty
//!   serve:<on|off>       answer read-holding-registers requests on the master side, or stay silent
//!   E D X H              enable / disable / shutdown / drop the handle
//!   S:<id>:<timeout_ms>  read_holding_registers in a spawned task
//!   hold:<n> go wait:<n> waitc:<n> done sleep:<ms>    as in `lifecycle`
//! output line: <PortState log: sD sW<ns> sO sS>|<completions>|<live|done[ after:<class>]>|<TIMEOUT ...>
use std::collections::HashMap;
use std::io::{Read, Write};
use std::os::unix::io::FromRawFd;
use std::sync::atomic::{AtomicBool, Ordering};
use std::sync::{Arc, Mutex};
use std::time::Duration;

use rodbus::client::{Channel, Listener, PortState, RequestParam};
use rodbus::{AddressRange, DecodeLevel, MaybeAsync, RequestError, SerialSettings, UnitId};

#[derive(Default)]
struct Shared {
    listener: Vec<String>,
    completions: Vec<(u32, String)>,
    hold_at: Option<usize>,
}

type Ctl = Arc<Mutex<Shared>>;

struct Gate {
    ctl: Ctl,
    release: Arc<tokio::sync::Notify>,
}

impl Listener<PortState> for Gate {
    fn update(&mut self, value: PortState) -> MaybeAsync<()> {
        let hold = {
            let mut c = self.ctl.lock().unwrap();
            c.listener.push(match value {
                PortState::Disabled => "sD".to_string(),
                PortState::Wait(d) => format!("sW{}", d.as_nanos()),
                PortState::Open => "sO".to_string(),
                PortState::Shutdown => "sS".to_string(),
            });
            if c.hold_at == Some(c.listener.len()) {
                c.hold_at = None;
                true
            } else {
                false
            }
        };
        if hold {
            let n = self.release.clone();
            MaybeAsync::asynchronous(async move { n.notified().await })
        } else {
            MaybeAsync::ready(())
        }
    }
}

fn class<T>(r: &Result<T, RequestError>) -> &'static str {
    match r {
        Ok(_) => "Ok",
        Err(RequestError::Io(_)) => "Io",
        Err(RequestError::Exception(_)) => "Exception",
        Err(RequestError::BadRequest(_)) => "BadRequest",
        Err(RequestError::BadFrame(_)) => "BadFrame",
        Err(RequestError::BadResponse(_)) => "BadResponse",
        Err(RequestError::Internal(_)) => "Internal",
        Err(RequestError::ResponseTimeout) => "Timeout",
        Err(RequestError::NoConnection) => "NoConnection",
        Err(RequestError::Shutdown) => "Shutdown",
    }
}

fn crc16(data: &[u8]) -> u16 {
    let mut crc: u16 = 0xFFFF;
    for b in data {
        crc ^= *b as u16;
        for _ in 0..8 {
            crc = if crc & 1 != 0 { (crc >> 1) ^ 0xA001 } else { crc >> 1 };
        }
    }
    crc
}

struct Pty {
    master: std::fs::File,
    /// kept open so that the master side never sees "no slave" before the task has opened the port
    slave: std::fs::File,
}

fn open_pty() -> (Pty, String) {
    let mut master: libc::c_int = 0;
    let mut slave: libc::c_int = 0;
    let mut name = [0 as libc::c_char; 128];
    let rc = unsafe { libc::openpty(&mut master, &mut slave, name.as_mut_ptr(), std::ptr::null(), std::ptr::null()) };
    assert_eq!(rc, 0, "openpty");
    let path = unsafe { std::ffi::CStr::from_ptr(name.as_ptr()) }.to_string_lossy().to_string();
    unsafe {
        let fl = libc::fcntl(master, libc::F_GETFL);
        libc::fcntl(master, libc::F_SETFL, fl | libc::O_NONBLOCK);
    }
    (
        Pty {
            master: unsafe { std::fs::File::from_raw_fd(master) },
            slave: unsafe { std::fs::File::from_raw_fd(slave) },
        },
        path,
    )
}

/// serve the master side on a blocking thread: 8-byte RTU read-holding-registers requests
fn serve(pty: Pty, on: Arc<AtomicBool>, alive: Arc<AtomicBool>) {
    std::thread::spawn(move || {
        let Pty { mut master, slave } = pty;
        let mut buf = [0u8; 8];
        let mut have = 0;
        loop {
            if !alive.load(Ordering::SeqCst) {
                drop(slave);
                return; // dropping both sides hangs up the port the task holds
            }
            match master.read(&mut buf[have..]) {
                Ok(0) => return,
                Ok(n) => have += n,
                Err(e) if e.kind() == std::io::ErrorKind::WouldBlock => {
                    std::thread::sleep(Duration::from_millis(2));
                    continue;
                }
                Err(_) => {
                    std::thread::sleep(Duration::from_millis(2));
                    continue;
                }
            }
            if have == 8 {
                have = 0;
                if on.load(Ordering::SeqCst) {
                    let mut reply = vec![buf[0], 0x03, 0x02, 0xAB, 0xCD];
                    let c = crc16(&reply);
                    reply.push((c & 0xFF) as u8);
                    reply.push((c >> 8) as u8);
                    if master.write_all(&reply).is_err() {
                        return;
                    }
                }
            }
        }
    });
}

async fn wait_until<F: Fn(&Shared) -> bool>(ctl: &Ctl, f: F) -> bool {
    for _ in 0..6000 {
        if f(&ctl.lock().unwrap()) {
            return true;
        }
        tokio::time::sleep(Duration::from_millis(2)).await;
    }
    false
}

async fn run_case(line: &str, case_no: usize) -> String {
    let (cfg, script) = line.split_once('|').expect("case needs a '|'");
    let mut kv: HashMap<&str, u64> = HashMap::new();
    for t in cfg.split_whitespace() {
        let (k, v) = t.split_once('=').expect("k=v");
        kv.insert(k, v.parse().expect("number"));
    }
    let ctl: Ctl = Arc::new(Mutex::new(Shared::default()));
    let link = std::env::temp_dir().join(format!("verif-pty-{}-{}", std::process::id(), case_no));
    let _ = std::fs::remove_file(&link);
    let release = Arc::new(tokio::sync::Notify::new());
    let retry = rodbus::doubling_retry_strategy(Duration::from_millis(kv["rmin"]), Duration::from_millis(kv["rmax"]));
    let (channel, task) = rodbus::client::create_rtu_client_task(
        link.to_str().unwrap(),
        SerialSettings::default(),
        64, // never fills: a full queue would block the script's own enable / disable calls while the task is held
        retry,
        DecodeLevel::nothing(),
        Some(Box::new(Gate {
            ctl: ctl.clone(),
            release: release.clone(),
        })),
    );
    let jh = tokio::spawn(task.run());
    let mut channel: Option<Channel> = Some(channel);
    let serving = Arc::new(AtomicBool::new(true));
    let mut alive: Option<Arc<AtomicBool>> = None;
    let mut failed: Option<String> = None;

    for (k, step) in script.split_whitespace().enumerate() {
        let p: Vec<&str> = step.split(':').collect();
        let ok = match p[0] {
            "link" => {
                let (pty, path) = open_pty();
                if let Some(a) = alive.take() {
                    a.store(false, Ordering::SeqCst);
                }
                let a = Arc::new(AtomicBool::new(true));
                alive = Some(a.clone());
                serve(pty, serving.clone(), a);
                let _ = std::fs::remove_file(&link);
                std::os::unix::fs::symlink(&path, &link).unwrap();
                true
            }
            "unlink" => {
                let _ = std::fs::remove_file(&link);
                true
            }
            "hup" => {
                // closing every master descriptor hangs up the slave side; the serving thread holds one: shut it by closing ours
                // and making the path unusable is done by `unlink`; here we only drop our copy and ask the thread to stop
                if let Some(a) = alive.take() {
                    a.store(false, Ordering::SeqCst);
                }
                true
            }
            "serve" => {
                serving.store(p[1] == "on", Ordering::SeqCst);
                true
            }
            "E" | "D" | "X" => {
                if let Some(ch) = channel.as_ref() {
                    let _ = match p[0] {
                        "E" => ch.enable().await,
                        "D" => ch.disable().await,
                        _ => ch.shutdown().await,
                    };
                }
                true
            }
            "H" => {
                channel = None;
                true
            }
            "S" => {
                if let Some(ch) = channel.clone() {
                    let id: u32 = p[1].parse().unwrap();
                    let param = RequestParam::new(UnitId::new(1), Duration::from_millis(p[2].parse().unwrap()));
                    let ctl2 = ctl.clone();
                    tokio::spawn(async move {
                        let r = ch.read_holding_registers(param, AddressRange::try_from(id as u16, 1).unwrap()).await;
                        ctl2.lock().unwrap().completions.push((id, class(&r).to_string()));
                    });
                    // let the spawned call reach the queue before the script goes on (keeps the script order)
                    for _ in 0..4 {
                        tokio::task::yield_now().await;
                    }
                }
                true
            }
            "hold" => {
                ctl.lock().unwrap().hold_at = Some(p[1].parse().unwrap());
                true
            }
            "go" => {
                release.notify_one();
                true
            }
            "wait" => {
                let n: usize = p[1].parse().unwrap();
                wait_until(&ctl, |c| c.listener.len() >= n).await
            }
            "waitc" => {
                let n: usize = p[1].parse().unwrap();
                wait_until(&ctl, |c| c.completions.len() >= n).await
            }
            "done" => {
                let mut fin = false;
                for _ in 0..6000 {
                    if jh.is_finished() {
                        fin = true;
                        break;
                    }
                    tokio::time::sleep(Duration::from_millis(2)).await;
                }
                fin
            }
            "sleep" => {
                tokio::time::sleep(Duration::from_millis(p[1].parse().unwrap())).await;
                true
            }
            other => panic!("unknown step {other:?}"),
        };
        if !ok {
            failed = Some(format!("TIMEOUT at step {k} ({step})"));
            break;
        }
    }
    let done = jh.is_finished();
    let mut after = String::new();
    if done {
        if let Some(ch) = channel.as_ref() {
            let r = ch
                .read_holding_registers(RequestParam::new(UnitId::new(1), Duration::from_millis(10)), AddressRange::try_from(0, 1).unwrap())
                .await;
            after = format!(" after:{}", class(&r));
        }
    }
    jh.abort();
    if let Some(a) = alive.take() {
        a.store(false, Ordering::SeqCst);
    }
    let _ = std::fs::remove_file(&link);
    let c = ctl.lock().unwrap();
    let mut comps = c.completions.clone();
    comps.sort();
    format!(
        "{}|{}|{}{}|{}",
        c.listener.join(" "),
        comps.iter().map(|(i, s)| format!("c{i}:{s}")).collect::<Vec<_>>().join(" "),
        if done { "done" } else { "live" },
        after,
        failed.unwrap_or_default()
    )
}

pub fn main(_args: &[String]) -> i32 {
    crate::util::quiet_panics();
    for (n, line) in crate::util::stdin_lines().enumerate() {
        let res = std::panic::catch_unwind(move || {
            let rt = tokio::runtime::Builder::new_current_thread().enable_all().build().unwrap();
            let out = rt.block_on(run_case(&line, n));
            drop(rt);
            out
        });
        match res {
            Ok(s) => println!("{s}"),
            Err(_) => println!("PANIC"),
        }
    }
    0
}
