//! A sequence of calls on ONE client connection, with a scripted peer and a scripted transmit side.
//! One input line = one case = one fresh `ClientSession` (transaction ids start at 0).
//! args:        [--decode min|max]
//! input line:  F <call>@<acts> <call>@<acts> ...      F = T | R
//!   <call> = K,U,S,C,V[,style]   the fields of cenc / cresp (K may carry the suffix r; V is `-`,
//!            `s<seed>` or `l<v1;v2;..>` with ';' between the list values); style f = Channel future
//!            (default), c = CallbackSession, x = FfiChannel
//!   <acts> = '+'-joined, executed in order:
//!     w<k1>.<k2>..[.b] | wb   only as the first act: before the call is submitted the transmit side is
//!                  scripted to take at most k1, k2, .. bytes per write and then (b) to block. What an
//!                  earlier call left of its script is dropped first; without w writes are taken whole.
//!     -- the call is submitted; the driver yields (clock frozen) until a complete request frame is on
//!     -- the wire, or the write is blocked, or the call has completed; then:
//!     u          release a blocked write
//!     t<ms>      let <ms> milliseconds of virtual time pass
//!     g          push the genuine reply ADU (clientdrv::genuine_pdu; TCP: the transaction id is taken
//!                from the request bytes on the wire, or, if fewer than 2 are there, is the number of
//!                earlier calls of the case that reached the task; RTU: unit, pdu, crc)
//!     s<d>       TCP only (ignored on R): push the genuine reply with transaction id tx + d (mod 2^16)
//!     x<code>    push the exception reply [fc|0x80, code] (code decimal)
//!     p<k>       push the first k bytes of the genuine ADU;  r  push the rest of it
//!     d          push again the last ADU pushed during an EARLIER call of this case (g, s, x, d, or a
//!                genuine ADU completed by r); nothing if there is none
//!     n          nothing
//!   every push is followed by settle(). The acts also run when the call was rejected (the peer does
//!   not know): the frames then reach an idle session.
//! output line: wire=<every write, hex, joined by '+', or '-'> res=<r1;r2;..> end=<name|->
//!   r = OK .. | OKX .. | ERR <flat name> | REJECTED <token> | HUNG | PANIC | SKIPPED
//!       REJECTED: construction failed, or the call completed at once without a byte on the wire
//!       HUNG: no result within 5 s of virtual time; SKIPPED: the session had ended before this call
//!   end = the name `ClientSession::run` returned (PANIC if the task panicked), `-` if still running
//!   | BADLINE
use std::time::Duration;

use crate::clientdrv::{self as drv, Case, Sent};
use crate::wire::{settle, Wire, WriteStep};
use rodbus::verif::{ClientSession, Framing};
use rodbus::DecodeLevel;

#[derive(Clone, Debug)]
enum Act {
    Release,
    Time(u64),
    Genuine,
    Stale(i64),
    Exception(u8),
    Prefix(usize),
    Rest,
    Dup,
    Nothing,
}

struct Call {
    case: Case,
    writes: Option<Vec<WriteStep>>,
    acts: Vec<Act>,
}

fn parse_writes(s: &str) -> Result<Vec<WriteStep>, String> {
    let parts: Vec<&str> = s.split('.').collect();
    let mut steps = Vec::new();
    for (i, p) in parts.iter().enumerate() {
        if *p == "b" {
            if i + 1 != parts.len() {
                return Err(format!("w{s}: b only at the end"));
            }
            steps.push(WriteStep::Block);
        } else {
            if p.is_empty() || !p.bytes().all(|b| b.is_ascii_digit()) {
                return Err(format!("w{s}: bad step {p:?}"));
            }
            steps.push(WriteStep::Accept(p.parse().map_err(|_| format!("w{s}: bad step {p:?}"))?));
        }
    }
    Ok(steps)
}

fn parse_act(a: &str) -> Result<Act, String> {
    let bad = || format!("bad act {a:?}");
    let mut ch = a.chars();
    let head = ch.next().ok_or_else(bad)?;
    let arg = ch.as_str();
    let bare = |act: Act| if arg.is_empty() { Ok(act) } else { Err(bad()) };
    match head {
        'u' => bare(Act::Release),
        'g' => bare(Act::Genuine),
        'r' => bare(Act::Rest),
        'd' => bare(Act::Dup),
        'n' => bare(Act::Nothing),
        't' => {
            let ms: u64 = arg.parse().map_err(|_| bad())?;
            if ms > 3_600_000 || arg.starts_with('+') {
                return Err(bad());
            }
            Ok(Act::Time(ms))
        }
        's' => {
            if arg.starts_with('+') {
                return Err(bad());
            }
            Ok(Act::Stale(arg.parse::<i64>().map_err(|_| bad())?))
        }
        'x' => {
            if arg.starts_with('+') {
                return Err(bad());
            }
            Ok(Act::Exception(arg.parse::<u8>().map_err(|_| bad())?))
        }
        'p' => {
            if arg.starts_with('+') {
                return Err(bad());
            }
            Ok(Act::Prefix(arg.parse::<usize>().map_err(|_| bad())?))
        }
        _ => Err(bad()),
    }
}

/// first transaction id of the session (`tx=<n>` token right after the framing letter; default 0)
static START_TX: std::sync::atomic::AtomicU32 = std::sync::atomic::AtomicU32::new(0);

fn parse_line(line: &str) -> Result<(Framing, Vec<Call>), String> {
    let mut tokens = line.split_whitespace();
    let (f, framing) = match tokens.next() {
        Some("T") => ('T', Framing::Tcp),
        Some("R") => ('R', Framing::RtuResponse),
        other => return Err(format!("bad framing {other:?}")),
    };
    let mut tokens = tokens.peekable();
    START_TX.store(0, std::sync::atomic::Ordering::Relaxed);
    if let Some(t) = tokens.peek().and_then(|t| t.strip_prefix("tx=")) {
        let v: u16 = t.parse().map_err(|_| format!("bad tx= token {t:?}"))?;
        START_TX.store(v as u32, std::sync::atomic::Ordering::Relaxed);
        tokens.next();
    }
    let mut calls = Vec::new();
    for tok in tokens {
        let (call, acts_str) = tok.split_once('@').ok_or_else(|| format!("{tok:?}: missing @<acts>"))?;
        let case = drv::parse_call(f, call, None)?;
        let mut writes = None;
        let mut acts = Vec::new();
        for (i, a) in acts_str.split('+').enumerate() {
            if let Some(w) = a.strip_prefix('w') {
                if i != 0 {
                    return Err(format!("{tok:?}: w must be the first act"));
                }
                writes = Some(parse_writes(w)?);
            } else {
                acts.push(parse_act(a)?);
            }
        }
        calls.push(Call { case, writes, acts });
    }
    if calls.is_empty() {
        return Err("no calls".to_string());
    }
    Ok((framing, calls))
}

fn push(wire: &Wire, bytes: &[u8]) {
    // an empty chunk would read as end of stream
    if !bytes.is_empty() {
        wire.push(bytes);
    }
}

async fn one(framing: Framing, calls: &[Call], decode: DecodeLevel) -> String {
    let (channel, mut session) = ClientSession::new(framing, 16, decode, None);
    session.set_next_tx_id(START_TX.load(std::sync::atomic::Ordering::Relaxed) as u16);
    let wire = Wire::new();
    let io = wire.clone();
    let mut task = Some(tokio::spawn(async move { session.run(Box::new(io)).await }));
    let _ = channel.enable().await;

    let mut results: Vec<String> = Vec::with_capacity(calls.len());
    let mut end: Option<String> = None;
    // the transaction id the next request that reaches the task is expected to carry
    let mut tx_guess: u16 = 0;
    // the last ADU pushed during an earlier call
    let mut last_earlier: Option<Vec<u8>> = None;

    for call in calls {
        if end.is_some() {
            results.push("SKIPPED".to_string());
            continue;
        }
        let case = &call.case;
        drv::clear_write_script(&wire);
        if let Some(steps) = &call.writes {
            wire.script_writes(steps);
        }
        let from = drv::writes_so_far(&wire);
        let submitted = drv::submit_case(&channel, case);
        let sent = match &submitted {
            Ok(handle) => drv::wait_request_sent(&wire, from, case, handle).await,
            Err(_) => Sent::Finished,
        };
        let rejected = sent == Sent::Finished && drv::written_since(&wire, from).is_empty();

        // the transaction id of this request, as far as the wire shows it
        let tx_now = |wire: &Wire| -> (u16, bool) {
            let w = drv::written_since(wire, from);
            if w.len() >= 2 {
                (u16::from_be_bytes([w[0], w[1]]), true)
            } else {
                (tx_guess, false)
            }
        };
        let genuine = |wire: &Wire| drv::frame_adu(case, tx_now(wire).0, &drv::genuine_pdu(case));

        let mut last_now: Option<Vec<u8>> = None;
        let mut prefix_len: usize = 0;
        for act in &call.acts {
            match act {
                Act::Nothing => {}
                Act::Release => {
                    wire.release_write();
                    settle().await;
                }
                Act::Time(ms) => tokio::time::sleep(Duration::from_millis(*ms)).await,
                Act::Genuine => {
                    let adu = genuine(&wire);
                    push(&wire, &adu);
                    settle().await;
                    last_now = Some(adu);
                }
                Act::Stale(d) => {
                    if !case.rtu {
                        let tx = (tx_now(&wire).0 as i64 + d.rem_euclid(65536)).rem_euclid(65536) as u16;
                        let adu = drv::frame_adu(case, tx, &drv::genuine_pdu(case));
                        push(&wire, &adu);
                        settle().await;
                        last_now = Some(adu);
                    }
                }
                Act::Exception(code) => {
                    let adu = drv::frame_adu(case, tx_now(&wire).0, &drv::exception_pdu(case, *code));
                    push(&wire, &adu);
                    settle().await;
                    last_now = Some(adu);
                }
                Act::Prefix(k) => {
                    let adu = genuine(&wire);
                    prefix_len = (*k).min(adu.len());
                    push(&wire, &adu[..prefix_len]);
                    settle().await;
                    if prefix_len == adu.len() {
                        last_now = Some(adu);
                    }
                }
                Act::Rest => {
                    let adu = genuine(&wire);
                    let k = prefix_len.min(adu.len());
                    push(&wire, &adu[k..]);
                    settle().await;
                    prefix_len = adu.len();
                    last_now = Some(adu);
                }
                Act::Dup => {
                    if let Some(adu) = &last_earlier {
                        push(&wire, adu);
                        settle().await;
                    }
                }
            }
        }

        let mut result = match submitted {
            Ok(handle) => drv::call_result(handle, rejected).await,
            Err(r) => r,
        };

        let (tx, on_wire) = tx_now(&wire);
        if on_wire {
            tx_guess = tx.wrapping_add(1);
        } else if sent == Sent::Blocked {
            tx_guess = tx_guess.wrapping_add(1);
        }
        if last_now.is_some() {
            last_earlier = last_now;
        }

        settle().await;
        if task.as_ref().map(|t| t.is_finished()).unwrap_or(false) {
            match task.take().unwrap().await {
                Ok(name) => end = Some(name),
                Err(_) => {
                    // a panic inside a callback the client task invoked takes the session down
                    end = Some("PANIC".to_string());
                    result = "PANIC".to_string();
                }
            }
        }
        results.push(result);
    }

    if let Some(t) = task.take() {
        t.abort();
        let _ = t.await;
    }
    format!(
        "wire={} res={} end={}",
        drv::format_writes(&wire.take_out()),
        results.join(";"),
        end.as_deref().unwrap_or("-")
    )
}

pub fn main(args: &[String]) -> i32 {
    crate::util::quiet_panics();
    let opts = drv::parse_opts(args);
    let rt = drv::runtime();
    rt.block_on(async {
        for line in crate::util::stdin_lines() {
            let parsed = match std::panic::catch_unwind(|| parse_line(&line)) {
                Ok(Ok(c)) => c,
                Ok(Err(e)) => {
                    eprintln!("cseq: bad line {line:?}: {e}");
                    println!("BADLINE");
                    continue;
                }
                Err(_) => {
                    eprintln!("cseq: panic while parsing {line:?}");
                    println!("BADLINE");
                    continue;
                }
            };
            let s = one(parsed.0, &parsed.1, opts.decode).await;
            println!("{s}");
        }
    });
    0
}
