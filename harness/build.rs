// Generates the subcommand table from the files in src/cmd/: every file `src/cmd/<name>.rs`
// exposes `pub fn main(args: &[String]) -> i32` and becomes the subcommand `<name>`.
use std::io::Write;

fn main() {
    let dir = std::path::Path::new(env!("CARGO_MANIFEST_DIR")).join("src").join("cmd");
    println!("cargo:rerun-if-changed={}", dir.display());
    let mut names: Vec<String> = std::fs::read_dir(&dir)
        .unwrap()
        .filter_map(|e| {
            let p = e.unwrap().path();
            if p.extension().map(|x| x == "rs").unwrap_or(false) {
                Some(p.file_stem().unwrap().to_string_lossy().to_string())
            } else {
                None
            }
        })
        .collect();
    names.sort();
    let out = std::path::Path::new(&std::env::var("OUT_DIR").unwrap()).join("cmds.rs");
    let mut f = std::fs::File::create(out).unwrap();
    for n in &names {
        writeln!(f, "#[path = {:?}] pub mod {};", dir.join(format!("{n}.rs")), n).unwrap();
    }
    writeln!(f, "pub fn dispatch(sub: &str, args: &[String]) -> Option<i32> {{ match sub {{").unwrap();
    for n in &names {
        writeln!(f, "  {:?} => Some({}::main(args)),", n, n).unwrap();
    }
    writeln!(f, "  _ => None }} }}").unwrap();
    writeln!(f, "pub const NAMES: &[&str] = &{:?};", names).unwrap();
}
