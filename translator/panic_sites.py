#!/usr/bin/env python3
"""Inventory of panic-capable syntactic sites in the files property C07 anchors.

A site is: unwrap/expect/panicking macro, slice or array indexing `e[..]`, integer arithmetic
(+ - * << and their assignment forms) whose operands are not all literals, and `as` casts to a
narrower integer type (these truncate rather than panic, they are listed for review). Test
modules are stripped. Each site is keyed by (file, enclosing fn, kind, normalised expression) so
that the key survives unrelated edits; `panic_sites.json` maps every key to the reason it cannot
fire on peer input (a Coq lemma, or a reviewed argument). A site that is not in that map is an
open obligation of C07.
"""
import json
import os
import re
import sys

sys.path.insert(0, os.path.dirname(os.path.abspath(__file__)))
import rustparse as rp  # noqa: E402
from gens.decode import strip_test_modules, enclosing_fn, strip_strings  # noqa: E402

FILES = [
    'common/buffer.rs', 'tcp/frame.rs', 'serial/frame.rs', 'server/task.rs', 'server/request.rs',
    'client/task.rs', 'client/message.rs', 'types.rs', 'common/serialize.rs', 'common/phys.rs', 'decode.rs',
    'common/frame.rs', 'common/parse.rs', 'common/bits.rs', 'server/response.rs', 'server/types.rs',
    'client/requests/read_bits.rs', 'client/requests/read_registers.rs', 'client/requests/write_single.rs',
    'client/requests/write_multiple.rs', 'exception.rs', 'common/function.rs',
]

MACROS = r'\b(panic|unreachable|unimplemented|todo|assert|assert_eq|assert_ne|debug_assert|debug_assert_eq)!'


def norm(s):
    return re.sub(r'\s+', ' ', s).strip()[:90]


def line_text(src, pos):
    a = src.rfind('\n', 0, pos) + 1
    b = src.find('\n', pos)
    return norm(src[a:b if b >= 0 else len(src)])


def sites_in(src, rel):
    res = []
    code = strip_strings(src)

    def add(pos, kind, expr):
        fn = enclosing_fn(src, pos)
        res.append({'file': rel, 'fn': fn[0] if fn else '-', 'kind': kind, 'expr': norm(expr)})
    for m in re.finditer(r'\.(unwrap|expect)\s*\(', code):
        add(m.start(), m.group(1), line_text(code, m.start()))
    for m in re.finditer(MACROS, code):
        add(m.start(), 'macro', line_text(code, m.start()))
    # indexing: identifier / ) / ] immediately followed by '[' (not attributes, types or literals)
    for m in re.finditer(r'(?<=[\w\)\]])\[', code):
        pre = code[max(0, m.start() - 40):m.start()]
        if re.search(r'#!?$', pre) or re.search(r'(&|:|<|\(|,|=)\s*(mut\s+)?$', pre):
            continue
        # skip `[u8; N]`-style types and attribute bodies
        j = m.start()
        depth = 0
        k = j
        while k < len(code):
            if code[k] == '[':
                depth += 1
            elif code[k] == ']':
                depth -= 1
                if depth == 0:
                    break
            k += 1
        inner = code[j + 1:k]
        if re.fullmatch(r'\s*\w+\s*;\s*[\w:()]+\s*', inner):
            continue
        add(j, 'index', line_text(code, j))
    # arithmetic
    for m in re.finditer(r'(?<![-=<>!&|+*/.:])(\+=|-=|\*=|<<=|<<|\+|-(?!>)|\*)(?![=>])', code):
        op = m.group(1)
        a = code.rfind('\n', 0, m.start()) + 1
        b = code.find('\n', m.start())
        line = code[a:b if b >= 0 else len(code)]
        col = m.start() - a
        left = line[:col].rstrip()
        right = line[col + len(op):].lstrip()
        if not left or not right:
            continue
        if op == '+' and re.match(r"(Send|Sync|Display|Debug|Unpin|Sized|Copy|Clone|'static|'_|'a)\b", right):
            continue            # trait bounds `.. + Send + 'static`
        if op in ('*', '-') and re.search(r'[(,=\[{|&<>!+\-*/]$|\b(return|in|as|if|match|while|=>)$', left):
            continue            # dereference / unary minus
        if op == '+' and re.search(r'\b(where|impl|dyn)\b|:\s*[\w:<>]+$', left) and re.match(r"[A-Z']", right):
            continue            # trait bounds `T: A + B`
        if re.match(r'\s*(//|///|#\[)', line):
            continue
        if op == '*' and re.search(r'[\w>)]$', left) is None:
            continue
        lm = re.search(r'([\w.()\[\]:]+)\s*$', left)
        rm = re.match(r'([\w.()\[\]:]+)', right)
        lt, rt = (lm.group(1) if lm else ''), (rm.group(1) if rm else '')
        if op == '*' and (not lt or re.search(r'(^|[^\w])(mut|const)$', left)):
            continue
        if re.fullmatch(r'[0-9_x]+', lt or '0') and re.fullmatch(r'[0-9_x]+', rt or '0'):
            continue
        if op == '<<' and re.search(r'<\s*$', left):
            continue
        add(m.start(), 'arith', norm(line))
    for m in re.finditer(r'\bas\s+(u8|u16|u32|i8|i16|i32)\b', code):
        add(m.start(), 'cast', line_text(code, m.start()))
    return res


def inventory(repo):
    root = os.path.join(repo, 'rodbus', 'src')
    out = []
    for rel in FILES:
        path = os.path.join(root, rel)
        src = strip_test_modules(rp.read(path))
        seen = set()
        for s in sites_in(src, rel):
            key = key_of(s)
            if key in seen:
                continue
            seen.add(key)
            out.append(s)
    return out


def key_of(s):
    return f"{s['file']}::{s['fn']}::{s['kind']}::{s['expr']}"


if __name__ == '__main__':
    repo = sys.argv[1] if len(sys.argv) > 1 else '/repo'
    inv = inventory(repo)
    json.dump(inv, sys.stdout, indent=1)
    print(file=sys.stderr)
    from collections import Counter
    print(Counter(s['kind'] for s in inv), len(inv), file=sys.stderr)
