#!/usr/bin/env python3
"""Translator: regenerates coq/theories/Gen/*.v from /repo's working tree.

Usage: gen.py [--repo /repo] [--out /verif/coq/theories/Gen] [--only Name,...]
Writes a file only when its content changed (so `make` stays a no-op on an unchanged tree) and
prints one JSON object: {"files": {"Defaults.v": {"ok": true, "changed": false}, ...}}.
A fragment that cannot be parsed makes that file's entry {"ok": false, "error": "..."}; the stale
file is replaced by a stub that does not define the expected names, so every proof that depends on
it stops compiling (a lost tie is never silent).
"""
import json
import os
import re
import sys

sys.path.insert(0, os.path.dirname(os.path.abspath(__file__)))
import rustparse as rp  # noqa: E402
from rustparse import ParseError  # noqa: E402

from registry import GENERATORS, HEADER  # noqa: E402


# generators live in translator/gens/*.py; each module registers with @generator(...)
def _load_generators():
    import importlib.util
    d = os.path.join(os.path.dirname(os.path.abspath(__file__)), 'gens')
    for f in sorted(os.listdir(d)):
        if f.endswith('.py') and not f.startswith('_'):
            spec = importlib.util.spec_from_file_location('gens_' + f[:-3], os.path.join(d, f))
            m = importlib.util.module_from_spec(spec)
            spec.loader.exec_module(m)


# ---------------------------------------------------------------------------------------------
def run(repo, outdir, only=None):
    if not GENERATORS:
        _load_generators()
    os.makedirs(outdir, exist_ok=True)
    report = {}
    for name, (fn, sources) in GENERATORS.items():
        if only and name not in only:
            continue
        path = os.path.join(outdir, name)
        try:
            content = HEADER.format(src=', '.join(sources)) + fn(repo)
            entry = {'ok': True}
        except (ParseError, KeyError, ValueError, IndexError) as e:
            content = f'(* GENERATED stub: translator could not parse the source: {str(e)[:200].replace("*)", "* )")} *)\n'
            entry = {'ok': False, 'error': f'{type(e).__name__}: {e}'}
        old = None
        if os.path.exists(path):
            old = open(path).read()
        entry['changed'] = (old != content)
        if old != content:
            with open(path, 'w') as f:
                f.write(content)
        report[name] = entry
    return report


def main():
    args = sys.argv[1:]
    repo = '/repo'
    out = os.path.join(os.path.dirname(os.path.dirname(os.path.abspath(__file__))), 'coq', 'theories', 'Gen')
    only = None
    while args:
        a = args.pop(0)
        if a == '--repo':
            repo = args.pop(0)
        elif a == '--out':
            out = args.pop(0)
        elif a == '--only':
            only = set(args.pop(0).split(','))
    rep = run(repo, out, only)
    print(json.dumps({'files': rep}, indent=1))
    return 0 if all(v['ok'] for v in rep.values()) else 2


if __name__ == '__main__':
    sys.exit(main())
