"""Generators for Gen/TlsVersions.v and Gen/TlsModes.v (C09).

TlsVersions.v: the `impl From<MinTlsVersion> for ProtocolVersions` builder chains evaluated to
(v1_2 enabled, v1_3 enabled) per variant. The meaning of the builder methods is that of
sfio-rustls-config 0.4 `ProtocolVersions` (new = nothing enabled, v12_only/v13_only, enable_v12,
enable_v13); any other token is a ParseError.

TlsModes.v: for every TLS constructor (Rust and C ABI) which sfio_rustls_config verifier
constructor it reaches per certificate mode, with which name-verification argument, and that the
protocol-version argument is the configured minimum version passed through `.into()`.
"""
import re
import rustparse as rp
from rustparse import ParseError
from registry import generator


def enum_variants(src, name):
    body = rp.find_body(src, r'pub\s+enum\s+' + name + r'\s*\{')
    vs = []
    for item in rp.split_top(body):
        item = re.sub(r'#\[[^\]]*\]', '', item).strip()
        if not item:
            continue
        if not re.fullmatch(r'[A-Za-z_][A-Za-z0-9_]*', item):
            raise ParseError(f'enum {name}: variant with payload or discriminant not supported: {item[:40]}')
        vs.append(item)
    if not vs:
        raise ParseError(f'enum {name} has no variants')
    return vs


CHAIN = re.compile(r'ProtocolVersions::(new|v12_only|v13_only)\(\)((?:\s*\.\s*enable_v1[23]\(\))*)')


def eval_versions(expr):
    e = ''.join(expr.split())
    m = CHAIN.fullmatch(e)
    if not m:
        raise ParseError('ProtocolVersions expression not understood: ' + expr[:80])
    v12 = m.group(1) == 'v12_only'
    v13 = m.group(1) == 'v13_only'
    for call in re.findall(r'enable_v1([23])\(\)', m.group(2)):
        if call == '2':
            v12 = True
        else:
            v13 = True
    return v12, v13


def b(x):
    return 'true' if x else 'false'


@generator('TlsVersions.v', 'rodbus/src/tcp/tls/mod.rs', 'rodbus/src/tcp/tls/client.rs')
def gen_versions(repo):
    mod = rp.read(f'{repo}/rodbus/src/tcp/tls/mod.rs')
    variants = enum_variants(mod, 'MinTlsVersion')
    src = rp.read(f'{repo}/rodbus/src/tcp/tls/client.rs')
    body = rp.find_body(src, r'impl\s+From<MinTlsVersion>\s+for\s+ProtocolVersions\s*\{')
    arms = rp.match_arms(rp.first_match_body(body))
    table = {}
    for pat, expr in arms:
        m = re.fullmatch(r'MinTlsVersion::([A-Za-z0-9_]+)', pat)
        if not m:
            raise ParseError('From<MinTlsVersion>: arm pattern not understood: ' + pat)
        if m.group(1) in table:
            raise ParseError('From<MinTlsVersion>: duplicate arm ' + pat)
        table[m.group(1)] = eval_versions(expr)
    if set(table) != set(variants):
        raise ParseError(f'From<MinTlsVersion>: arms {sorted(table)} do not cover the enum {variants}')
    out = '(* tcp/tls/mod.rs: enum MinTlsVersion *)\n'
    out += 'Inductive min_tls_version := ' + ' | '.join(variants) + '.\n'
    out += 'Definition all_min_tls_versions : list min_tls_version := [' + '; '.join(variants) + '].\n\n'
    out += '(* tcp/tls/client.rs: impl From<MinTlsVersion> for ProtocolVersions, as (TLS 1.2 enabled, TLS 1.3 enabled) *)\n'
    out += 'Definition versions_of (m : min_tls_version) : bool * bool :=\n  match m with\n'
    for v in variants:
        out += f'  | {v} => ({b(table[v][0])}, {b(table[v][1])})\n'
    out += '  end.\n'
    return out


def call_args(src, callee_re):
    """arguments of the first call matching callee_re( ... ) in src"""
    m = re.search(callee_re + r'\s*\(', src)
    if not m:
        raise ParseError('call not found: ' + callee_re)
    i = m.end()
    depth = 1
    j = i
    while j < len(src) and depth > 0:
        if src[j] in '([{':
            depth += 1
        elif src[j] in ')]}':
            depth -= 1
        j += 1
    if depth != 0:
        raise ParseError('unbalanced call: ' + callee_re)
    return [' '.join(a.split()) for a in rp.split_top(src[i:j - 1])]


def norm(s):
    return ''.join(s.split())


NAME_ARGS = {
    'ClientNameVerification::None': 'ClientNameNone',
    'ServerNameVerification::SanOrCommonName': 'ServerSanOrCommonName',
    'ServerNameVerification::SanExtOnly': 'ServerSanExtOnly',
    'ServerNameVerification::DisableNameVerification': 'ServerNameDisabled',
}


def name_arg(tok):
    t = norm(tok)
    if t not in NAME_ARGS:
        raise ParseError('name-verification argument not understood: ' + tok[:60])
    return NAME_ARGS[t]


@generator('TlsModes.v', 'rodbus/src/tcp/tls/mod.rs', 'rodbus/src/tcp/tls/server.rs', 'rodbus/src/tcp/tls/client.rs',
           'ffi/rodbus-ffi/src/client.rs', 'ffi/rodbus-ffi/src/server.rs', 'ffi/rodbus-ffi/src/helpers/conversions.rs')
def gen_modes(repo):
    mod = rp.read(f'{repo}/rodbus/src/tcp/tls/mod.rs')
    modes = enum_variants(mod, 'CertificateMode')
    if set(modes) != {'AuthorityBased', 'SelfSigned'}:
        raise ParseError(f'CertificateMode variants changed: {modes}')
    out = '(* tcp/tls/mod.rs: enum CertificateMode *)\n'
    out += 'Inductive certificate_mode := ' + ' | '.join(modes) + '.\n'
    out += '(* which sfio_rustls_config constructor builds the verifier *)\n'
    out += 'Inductive sfio_ctor := SfioAuthority | SfioSelfSigned.\n'
    out += '(* its name-verification argument (NoNameArg: the constructor has none) *)\n'
    out += 'Inductive name_arg := NoNameArg | ClientNameNone | ServerSanOrCommonName | ServerSanExtOnly | ServerNameDisabled.\n'
    out += '(* (constructor, name argument, versions argument is the configured minimum passed through .into()) *)\n'
    out += 'Definition ctor_use : Type := sfio_ctor * name_arg * bool.\n\n'

    # ---- TlsServerConfig::new
    ssrc = rp.read(f'{repo}/rodbus/src/tcp/tls/server.rs')
    body = rp.find_body(ssrc, r'pub\s+fn\s+new\s*\([^)]*certificate_mode\s*:\s*CertificateMode\s*,?\s*\)\s*->\s*Result<Self,\s*TlsError>\s*\{')
    m = re.search(r'\bmatch\s+certificate_mode\b', body)
    if not m:
        raise ParseError('TlsServerConfig::new does not match on certificate_mode')
    arms = rp.match_arms(rp.block_after(body, m.start())[0])
    table = {}
    for pat, expr in arms:
        pm = re.fullmatch(r'CertificateMode::([A-Za-z]+)', pat)
        if not pm:
            raise ParseError('TlsServerConfig::new arm pattern: ' + pat)
        cm = re.match(r'sfio_rustls_config::server::(self_signed|authority)\s*\(', expr)
        if not cm or not expr.rstrip().endswith('?'):
            raise ParseError('TlsServerConfig::new arm is not a sfio_rustls_config::server call: ' + expr[:60])
        args = call_args(expr, r'sfio_rustls_config::server::' + cm.group(1))
        vers_ok = norm(args[0]) == 'min_tls_version.into()'
        if cm.group(1) == 'authority':
            table[pm.group(1)] = ('SfioAuthority', name_arg(args[1]), vers_ok)
        else:
            table[pm.group(1)] = ('SfioSelfSigned', 'NoNameArg', vers_ok)
    if set(table) != set(modes):
        raise ParseError('TlsServerConfig::new does not cover CertificateMode')
    out += '(* tcp/tls/server.rs: TlsServerConfig::new *)\n'
    out += 'Definition server_new (m : certificate_mode) : ctor_use :=\n  match m with\n'
    for k in modes:
        c, n, v = table[k]
        out += f'  | {k} => ({c}, {n}, {b(v)})\n'
    out += '  end.\n\n'

    # ---- TlsClientConfig::full_pki
    csrc = rp.read(f'{repo}/rodbus/src/tcp/tls/client.rs')
    body = rp.find_body(csrc, r'pub\s+fn\s+full_pki\s*\(')
    m = re.search(r'\bmatch\s+server_subject_name\b', body)
    if not m:
        raise ParseError('full_pki does not match on server_subject_name')
    arms = rp.match_arms(rp.block_after(body, m.start())[0])
    names = {}
    for pat, expr in arms:
        key = 'None' if pat == 'None' else ('Some' if re.fullmatch(r'Some\(\s*\w+\s*\)', pat) else None)
        if key is None:
            raise ParseError('full_pki arm pattern: ' + pat)
        tm = re.search(r'\(\s*(ServerNameVerification::\w+)\s*,', expr)
        if not tm:
            raise ParseError('full_pki arm does not produce (ServerNameVerification::.., name): ' + expr[:60])
        names[key] = name_arg(tm.group(1))
        uses_given = bool(re.search(r'ServerName::try_from\(\s*x\s*\)', expr)) if key == 'Some' else None
        if key == 'Some' and not uses_given:
            raise ParseError('full_pki Some arm does not build the server name from the given string')
    if set(names) != {'None', 'Some'}:
        raise ParseError('full_pki arms do not cover Option')
    if not re.search(r'let\s*\(\s*name_verifier\s*,\s*server_name\s*\)\s*=\s*match\s+server_subject_name', body):
        raise ParseError('full_pki: (name_verifier, server_name) binding not found')
    args = call_args(body, r'sfio_rustls_config::client::authority')
    if norm(args[1]) != 'name_verifier':
        raise ParseError('full_pki: second argument of client::authority is not name_verifier')
    if not re.search(r'Ok\(\s*Self\s*\{\s*server_name\s*,', body):
        raise ParseError('full_pki: the computed server_name is not stored in the config')
    vers_ok = norm(args[0]) == 'min_tls_version.into()'
    out += '(* tcp/tls/client.rs: TlsClientConfig::full_pki; argument = "a server subject name was given" *)\n'
    out += 'Definition client_full_pki (name_given : bool) : ctor_use :=\n'
    out += f'  if name_given then (SfioAuthority, {names["Some"]}, {b(vers_ok)}) else (SfioAuthority, {names["None"]}, {b(vers_ok)}).\n\n'

    # ---- TlsClientConfig::self_signed
    body = rp.find_body(csrc, r'pub\s+fn\s+self_signed\s*\(')
    args = call_args(body, r'sfio_rustls_config::client::self_signed')
    out += '(* tcp/tls/client.rs: TlsClientConfig::self_signed *)\n'
    out += f'Definition client_self_signed : ctor_use := (SfioSelfSigned, NoNameArg, {b(norm(args[0]) == "min_tls_version.into()")}).\n\n'

    # ---- the rodbus client hands the configured name to the connector
    hbody = rp.find_body(csrc, r'pub\(crate\)\s+async\s+fn\s+handle_connection\s*\(')
    uses_name = bool(re.search(r'connector\s*\.\s*connect\(\s*self\.server_name\.clone\(\)\s*,\s*socket\s*\)', hbody))
    out += '(* tcp/tls/client.rs: handle_connection passes the configured server name to the connector *)\n'
    out += f'Definition client_connects_with_configured_name : bool := {b(uses_name)}.\n\n'

    # ---- legacy TlsClientConfig::new
    body = rp.find_body(csrc, r'pub\s+fn\s+new\s*\(\s*server_name\s*:')
    m = re.search(r'\bmatch\s+certificate_mode\b', body)
    if not m:
        raise ParseError('TlsClientConfig::new does not match on certificate_mode')
    legacy = {}
    for pat, expr in rp.match_arms(rp.block_after(body, m.start())[0]):
        pm = re.fullmatch(r'CertificateMode::([A-Za-z]+)', pat)
        if not pm:
            raise ParseError('TlsClientConfig::new arm pattern: ' + pat)
        if re.match(r'Self::full_pki\s*\(', expr):
            a = call_args(expr, r'Self::full_pki')
            given = bool(re.fullmatch(r'Some\(server_name\.to_string\(\)\)', norm(a[0])))
            if not given and norm(a[0]) != 'None':
                raise ParseError('TlsClientConfig::new: first argument of full_pki not understood: ' + a[0])
            legacy[pm.group(1)] = f'client_full_pki {b(given)}'
            if norm(a[-1]) != 'min_tls_version':
                raise ParseError('TlsClientConfig::new: min_tls_version not forwarded to full_pki')
        elif re.match(r'Self::self_signed\s*\(', expr):
            a = call_args(expr, r'Self::self_signed')
            if norm(a[-1]) != 'min_tls_version':
                raise ParseError('TlsClientConfig::new: min_tls_version not forwarded to self_signed')
            legacy[pm.group(1)] = 'client_self_signed'
        else:
            raise ParseError('TlsClientConfig::new arm: ' + expr[:60])
    if set(legacy) != set(modes):
        raise ParseError('TlsClientConfig::new does not cover CertificateMode')
    out += '(* tcp/tls/client.rs: deprecated TlsClientConfig::new (always carries a server name) *)\n'
    out += 'Definition client_new (m : certificate_mode) : ctor_use :=\n  match m with\n'
    for k in modes:
        out += f'  | {k} => {legacy[k]}\n'
    out += '  end.\n\n'

    # ---- C ABI conversions
    conv = rp.read(f'{repo}/ffi/rodbus-ffi/src/helpers/conversions.rs')
    vb = rp.find_body(conv, r'impl\s+From<ffi::MinTlsVersion>\s+for\s+rodbus::client::MinTlsVersion\s*\{')
    ffi_v = []
    for pat, expr in rp.match_arms(rp.first_match_body(vb)):
        pm = re.fullmatch(r'ffi::MinTlsVersion::(\w+)', pat)
        em = re.fullmatch(r'rodbus::client::MinTlsVersion::(\w+)', expr)
        if not pm or not em:
            raise ParseError('ffi MinTlsVersion conversion arm: ' + pat + ' => ' + expr)
        ffi_v.append((pm.group(1), em.group(1)))
    mb = rp.find_body(conv, r'impl\s+From<ffi::CertificateMode>\s+for\s+rodbus::client::CertificateMode\s*\{')
    ffi_m = []
    for pat, expr in rp.match_arms(rp.first_match_body(mb)):
        pm = re.fullmatch(r'ffi::CertificateMode::(\w+)', pat)
        em = re.fullmatch(r'rodbus::client::CertificateMode::(\w+)', expr)
        if not pm or not em:
            raise ParseError('ffi CertificateMode conversion arm: ' + pat + ' => ' + expr)
        ffi_m.append((pm.group(1), em.group(1)))
    out += '(* ffi/rodbus-ffi/src/helpers/conversions.rs: (C ABI variant name, Rust variant) *)\n'
    out += 'Definition ffi_min_tls_version : list (string * string) := [' + '; '.join(f'("{a}"%string, "{c}"%string)' for a, c in ffi_v) + '].\n'
    out += 'Definition ffi_certificate_mode : list (string * string) := [' + '; '.join(f'("{a}"%string, "{c}"%string)' for a, c in ffi_m) + '].\n\n'

    # ---- C ABI client: TryFrom<ffi::TlsClientConfig>
    fc = rp.read(f'{repo}/ffi/rodbus-ffi/src/client.rs')
    body = rp.find_body(fc, r'impl\s+TryFrom<ffi::TlsClientConfig>\s+for\s+rodbus::client::TlsClientConfig\s*\{')
    m = re.search(r'\bmatch\s+value\.certificate_mode\(\)', body)
    if not m:
        raise ParseError('ffi TlsClientConfig conversion does not match on certificate_mode()')
    ffi_client = {}
    for pat, expr in rp.match_arms(rp.block_after(body, m.start())[0]):
        pm = re.fullmatch(r'ffi::CertificateMode::(\w+)', pat)
        if not pm:
            raise ParseError('ffi client arm pattern: ' + pat)
        if 'rodbus::client::TlsClientConfig::full_pki' in expr:
            a = call_args(expr, r'rodbus::client::TlsClientConfig::full_pki')
            wildcard = re.search(r'if\s+value\.allow_server_name_wildcard\s*&&\s*expected_subject_name\s*==\s*"\*"\s*\{\s*None\s*\}\s*else\s*\{\s*Some\(\s*expected_subject_name\.to_string\(\)\s*\)\s*\}', expr)
            if norm(a[0]) != 'expected_subject_name' or not wildcard:
                raise ParseError('ffi client: subject name handling not understood')
            ffi_client[pm.group(1)] = ('full_pki', norm(a[-1]) == 'value.min_tls_version().into()')
        elif 'rodbus::client::TlsClientConfig::self_signed' in expr:
            a = call_args(expr, r'rodbus::client::TlsClientConfig::self_signed')
            ffi_client[pm.group(1)] = ('self_signed', norm(a[-1]) == 'value.min_tls_version().into()')
        else:
            raise ParseError('ffi client arm: ' + expr[:60])
    if set(ffi_client) != set(modes):
        raise ParseError('ffi client conversion does not cover CertificateMode')
    out += '(* ffi/rodbus-ffi/src/client.rs: TryFrom<ffi::TlsClientConfig>; name_given = not (allow_server_name_wildcard && name = "*") *)\n'
    out += 'Definition ffi_client (m : certificate_mode) (name_given : bool) : ctor_use * bool (* min version forwarded *) :=\n  match m with\n'
    for k in modes:
        which, fwd = ffi_client[k]
        out += f'  | {k} => ({"client_full_pki name_given" if which == "full_pki" else "client_self_signed"}, {b(fwd)})\n'
    out += '  end.\n\n'

    # ---- C ABI server
    fs = rp.read(f'{repo}/ffi/rodbus-ffi/src/server.rs')
    m = re.search(r'#\[cfg\(feature\s*=\s*"enable-tls"\)\]\s*(?:#\[[^\]]*\]\s*)*pub\(crate\)\s+unsafe\s+fn\s+server_create_tls_impl\s*\(', fs)
    if not m:
        raise ParseError('ffi server_create_tls_impl (enable-tls) not found')
    body = rp.block_after(fs, fs.index(')', m.end()))[0]
    a = call_args(body, r'TlsServerConfig::new')
    if len(a) != 6:
        raise ParseError('ffi server: TlsServerConfig::new does not have 6 arguments')
    fwd_v = norm(a[4]) == 'tls_config.min_tls_version().into()'
    fwd_m = norm(a[5]) == 'tls_config.certificate_mode().into()'
    m2 = re.search(r'\bmatch\s+auth_handler\b', body)
    if not m2:
        raise ParseError('ffi server: no match on auth_handler')
    spawn = {}
    for pat, expr in rp.match_arms(rp.block_after(body, m2.start())[0]):
        key = 'None' if pat == 'None' else ('Some' if re.fullmatch(r'Some\(\s*\w+\s*\)', pat) else None)
        sm = re.search(r'rodbus::server::(spawn_tls_server_task\w*)\s*\(', expr)
        if key is None or not sm:
            raise ParseError('ffi server auth_handler arm: ' + pat)
        spawn[key] = sm.group(1)
    out += '(* ffi/rodbus-ffi/src/server.rs: server_create_tls_impl *)\n'
    out += f'Definition ffi_server_forwards_min_version : bool := {b(fwd_v)}.\n'
    out += f'Definition ffi_server_forwards_certificate_mode : bool := {b(fwd_m)}.\n'
    out += f'Definition ffi_server_with_authz_handler_spawns : string := "{spawn.get("Some", "")}"%string.\n'
    out += f'Definition ffi_server_without_authz_handler_spawns : string := "{spawn.get("None", "")}"%string.\n'
    return out
