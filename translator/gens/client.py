"""Generator for Gen/ClientTables.v (C03/C04): the declarative tables the client codec relies on.

* exception.rs: enum ExceptionCode, `From<u8> for ExceptionCode`, `From<ExceptionCode> for u8`
* client/message.rs: `RequestDetails::function` (request kind -> FunctionCode)
* common/function.rs: `FunctionCode::as_error` (get_value() | 0x80)
"""
import re
import rustparse as rp
from rustparse import ParseError
from registry import generator


def _exception_consts(repo):
    src = rp.read(f'{repo}/rodbus/src/constants.rs')
    body = rp.find_body(src, r'pub\s+mod\s+exceptions\s*\{')
    c = rp.consts(body)
    return {k: rp.eval_const(v, {}) for k, v in c.items()}


@generator('ClientTables.v', 'rodbus/src/exception.rs', 'rodbus/src/constants.rs', 'rodbus/src/client/message.rs',
           'rodbus/src/common/function.rs')
def gen_client_tables(repo):
    env = _exception_consts(repo)
    src = rp.read(f'{repo}/rodbus/src/exception.rs')
    # ---- enum ExceptionCode
    ebody = rp.find_body(src, r'pub\s+enum\s+ExceptionCode\s*\{')
    variants = []
    unknown = None
    for item in rp.split_top(ebody):
        item = re.sub(r'#\[[^\]]*\]', '', item).strip()
        if not item:
            continue
        m = re.fullmatch(r'([A-Za-z]+)', item)
        if m:
            variants.append(m.group(1))
            continue
        m = re.fullmatch(r'([A-Za-z]+)\s*\(\s*u8\s*\)', item)
        if m and unknown is None:
            unknown = m.group(1)
            continue
        raise ParseError('ExceptionCode variant not understood: ' + item)
    if unknown is None:
        raise ParseError('ExceptionCode has no (u8) catch-all variant')
    out = '(* exception.rs: enum ExceptionCode *)\n'
    out += 'Inductive excode := ' + ' | '.join('Ex' + v for v in variants) + f' | Ex{unknown} (v : N).\n\n'
    # ---- From<u8> for ExceptionCode
    fbody = rp.find_body(src, r'impl\s+From<u8>\s+for\s+ExceptionCode\s*\{')
    fn = rp.find_body(fbody, r'fn\s+from\s*\(\s*value\s*:\s*u8\s*\)\s*->\s*Self\s*\{')
    arms = rp.match_arms(rp.first_match_body(fn, r'value\s*'))
    out += '(* impl From<u8> for ExceptionCode *)\nDefinition excode_of_u8 (value : N) : excode :=\n  match value with\n'
    seen = set()
    default = False
    for pat, expr in arms:
        if pat == '_':
            if not re.fullmatch(r'ExceptionCode::' + unknown + r'\(\s*value\s*\)', expr):
                raise ParseError('From<u8> default arm is not Unknown(value): ' + expr)
            default = True
            continue
        m = re.fullmatch(r'ExceptionCode::([A-Za-z]+)', expr)
        if not m or m.group(1) not in variants:
            raise ParseError('From<u8> arm not understood: ' + pat + ' => ' + expr)
        v = rp.eval_const(pat, env)
        if v in seen:
            raise ParseError(f'From<u8>: duplicate pattern {v}')
        seen.add(v)
        out += f'  | {v} => Ex{m.group(1)}\n'
    if not default:
        raise ParseError('From<u8> for ExceptionCode has no default arm')
    out += f'  | _ => Ex{unknown} value\n  end.\n\n'
    # ---- From<ExceptionCode> for u8
    tbody = rp.find_body(src, r'impl\s+From<ExceptionCode>\s+for\s+u8\s*\{')
    tn = rp.find_body(tbody, r'fn\s+from\s*\(\s*ex\s*:\s*ExceptionCode\s*\)\s*->\s*Self\s*\{')
    arms = rp.match_arms(rp.first_match_body(tn, r'ex\s*'))
    out += '(* impl From<ExceptionCode> for u8 *)\nDefinition u8_of_excode (ex : excode) : N :=\n  match ex with\n'
    got = set()
    for pat, expr in arms:
        m = re.fullmatch(r'ExceptionCode::([A-Za-z]+)(?:\(\s*value\s*\))?', pat)
        if not m:
            raise ParseError('From<ExceptionCode> arm not understood: ' + pat)
        name = m.group(1)
        if name == unknown:
            if expr != 'value':
                raise ParseError('From<ExceptionCode>: Unknown(value) does not map to value')
            out += f'  | Ex{unknown} value => value\n'
        else:
            if name not in variants:
                raise ParseError('From<ExceptionCode>: unknown variant ' + name)
            out += f'  | Ex{name} => {rp.eval_const(expr, env)}\n'
        got.add(name)
    if got != set(variants) | {unknown}:
        raise ParseError('From<ExceptionCode> for u8 does not cover every variant')
    out += '  end.\n\n'
    # ---- RequestDetails::function
    msrc = rp.read(f'{repo}/rodbus/src/client/message.rs')
    ebody = rp.find_body(msrc, r'pub\(crate\)\s+enum\s+RequestDetails\s*\{')
    kinds = []
    for item in rp.split_top(ebody):
        m = re.fullmatch(r'([A-Za-z]+)\s*\((.*)\)', item, re.S)
        if not m:
            raise ParseError('RequestDetails variant not understood: ' + item)
        kinds.append((m.group(1), ' '.join(m.group(2).split())))
    impl = rp.find_body(msrc, r'impl\s+RequestDetails\s*\{')
    fbody = rp.find_body(impl, r'pub\(crate\)\s+fn\s+function\s*\(\s*&self\s*\)\s*->\s*FunctionCode\s*\{')
    arms = rp.match_arms(rp.first_match_body(fbody, r'self\s*'))
    out += '(* client/message.rs: enum RequestDetails (payload type in the comment) and RequestDetails::function *)\n'
    out += 'Inductive req_kind := ' + ' | '.join('K' + k for k, _ in kinds) + '.\n'
    out += '(* ' + '; '.join(f'{k}({t})' for k, t in kinds) + ' *)\n'
    out += 'Definition kind_payload (k : req_kind) : string :=\n  match k with\n'
    for k, t in kinds:
        out += f'  | K{k} => "{t}"\n'
    out += '  end%string.\n'
    out += 'Definition kind_function (k : req_kind) : N :=\n  match k with\n'
    fsrc = rp.read(f'{repo}/rodbus/src/common/function.rs')
    fc = rp.consts(rp.find_body(fsrc, r'\bmod\s+constants\s*\{'))
    fenv = {k: rp.eval_const(v, {}) for k, v in fc.items()}
    enum_body = rp.find_body(fsrc, r'pub\(crate\)\s+enum\s+FunctionCode\s*\{')
    fvals = {}
    for item in rp.split_top(enum_body):
        m = re.fullmatch(r'([A-Za-z]+)\s*=\s*(.+)', item, re.S)
        if not m:
            raise ParseError('FunctionCode variant without discriminant: ' + item)
        fvals[m.group(1)] = rp.eval_const(m.group(2), fenv)
    got = []
    for pat, expr in arms:
        m = re.fullmatch(r'RequestDetails::([A-Za-z]+)\(\s*_\s*\)', pat)
        m2 = re.fullmatch(r'FunctionCode::([A-Za-z]+)', expr)
        if not m or not m2 or m2.group(1) not in fvals:
            raise ParseError('RequestDetails::function arm not understood: ' + pat + ' => ' + expr)
        out += f'  | K{m.group(1)} => {fvals[m2.group(1)]}\n'
        got.append(m.group(1))
    if got != [k for k, _ in kinds]:
        raise ParseError('RequestDetails::function does not cover the variants in order')
    out += '  end.\n\n'
    # ---- FunctionCode::as_error
    ab = rp.find_body(fsrc, r'pub\(crate\)\s+const\s+fn\s+as_error\s*\(\s*self\s*\)\s*->\s*u8\s*\{')
    m = re.fullmatch(r'self\.get_value\(\)\s*\|\s*(0x[0-9A-Fa-f]+|[0-9]+)', ab.strip())
    if not m:
        raise ParseError('FunctionCode::as_error is not get_value() | CONST')
    out += '(* common/function.rs: FunctionCode::as_error = get_value() | mask *)\n'
    out += f'Definition error_mask : N := {int(m.group(1), 0)}.\n'
    return out
