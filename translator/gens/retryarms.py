"""Generator for Gen/RetryArms.v (C14 task level): which RetryStrategy method each task calls where.

For the TCP/TLS client (tcp/client.rs run_connection, handle_failed_connection), the serial client
(serial/client.rs try_open_and_run) and the RTU server (serial/server.rs run): per arm of the `match`
on the session result, whether the arm ends the task, returns without a wait, or waits - and in that
case WHICH strategy method supplies the delay; which method the failed connect / open path calls; and
that `reset()` is called on the success path. Anything not recognised raises ParseError.
"""
import re
import rustparse as rp
from rustparse import ParseError
from registry import generator

KINDS = ['Shutdown', 'Disabled', 'IoError', 'BadFrame', 'MaxTimeouts']
CALLS = {'after_disconnect': 'CallAfterDisconnect', 'after_failed_connect': 'CallAfterFailedConnect'}


def retry_calls(text, field):
    return re.findall(r'self\s*\.\s*' + field + r'\s*\.\s*(after_disconnect|after_failed_connect|reset)\s*\(\s*\)', text)


def arm_action(body, field, where):
    calls = retry_calls(body, field)
    if 'reset' in calls:
        raise ParseError(f'{where}: reset() inside a session-result arm')
    if len(calls) > 1:
        raise ParseError(f'{where}: more than one retry strategy call in one arm: {calls}')
    if len(calls) == 1:
        return f'ArmWait {CALLS[calls[0]]}'
    b = ''.join(body.split())
    if b in ('Err(StateChange::Shutdown)', '{Err(StateChange::Shutdown)}'):
        return 'ArmShutdown'
    if b in ('Ok(())', '{Ok(())}'):
        return 'ArmNoWait'
    raise ParseError(f'{where}: arm body not understood: {body.strip()[:60]}')


def session_arms(fn_body, field, where):
    m = re.search(r'\bmatch\s+self\s*\.\s*client_loop\s*\.\s*run\s*\(\s*&mut\s+phys\s*\)\s*\.\s*await\b', fn_body)
    if not m:
        raise ParseError(f'{where}: no `match self.client_loop.run(&mut phys).await`')
    arms = rp.match_arms(rp.block_after(fn_body, m.start())[0])
    table = {}
    for pat, expr in arms:
        action = arm_action(expr, field, where)
        for alt in pat.split('|'):
            am = re.fullmatch(r'SessionError::([A-Za-z]+)(?:\(\s*_\s*\))?', alt.strip())
            if not am:
                raise ParseError(f'{where}: arm pattern not understood: {alt.strip()[:40]}')
            if am.group(1) in table:
                raise ParseError(f'{where}: duplicate arm {am.group(1)}')
            table[am.group(1)] = action
    if set(table) != set(KINDS):
        raise ParseError(f'{where}: arms {sorted(table)} do not cover SessionError {KINDS}')
    return table


def emit_table(name, table):
    out = f'Definition {name} (e : session_end) : arm_action :=\n  match e with\n'
    for k in KINDS:
        out += f'  | End{k} => {table[k]}\n'
    return out + '  end.\n'


def single_call(text, field, where):
    calls = [c for c in retry_calls(text, field) if c != 'reset']
    if len(calls) != 1:
        raise ParseError(f'{where}: expected exactly one retry strategy call, found {calls}')
    return CALLS[calls[0]]


@generator('RetryArms.v', 'rodbus/src/client/task.rs', 'rodbus/src/tcp/client.rs', 'rodbus/src/serial/client.rs', 'rodbus/src/serial/server.rs')
def gen_retry_arms(repo):
    task = rp.read(f'{repo}/rodbus/src/client/task.rs')
    enum_body = rp.find_body(task, r'pub\(crate\)\s+enum\s+SessionError\s*\{')
    variants = []
    for item in rp.split_top(enum_body):
        item = re.sub(r'#\[[^\]]*\]', '', item).strip()
        if item:
            vm = re.fullmatch(r'([A-Za-z]+)(\([^)]*\))?', item)
            if not vm:
                raise ParseError('SessionError variant not understood: ' + item[:40])
            variants.append(vm.group(1))
    if sorted(variants) != sorted(KINDS):
        raise ParseError(f'SessionError variants changed: {variants}')
    out = '(* client/task.rs: enum SessionError (how ClientLoop::run ended) *)\n'
    out += 'Inductive session_end := ' + ' | '.join('End' + k for k in KINDS) + '.\n'
    out += '(* which RetryStrategy method supplies a delay *)\nInductive retry_call := CallAfterDisconnect | CallAfterFailedConnect.\n'
    out += '(* what an arm of the match on the session result does *)\nInductive arm_action := ArmShutdown | ArmNoWait | ArmWait (c : retry_call).\n\n'

    # ---- TCP / TLS client
    tcp = rp.read(f'{repo}/rodbus/src/tcp/client.rs')
    rc = rp.find_body(tcp, r'async\s+fn\s+run_connection\s*\(')
    out += '(* tcp/client.rs: TcpChannelTask::run_connection, match on client_loop.run(..) *)\n'
    out += emit_table('tcp_session_arm', session_arms(rc, 'connect_retry', 'tcp/client.rs run_connection'))
    m = re.search(r'\bmatch\s+self\s*\.\s*client_loop', rc)
    before = rc[:m.start()]
    reset_ok = retry_calls(before, 'connect_retry') == ['reset'] and bool(re.search(r'ClientState::Connected', before))
    out += f'(* run_connection announces Connected and calls reset() exactly once before running the session *)\nDefinition tcp_resets_on_connected : bool := {"true" if reset_ok else "false"}.\n'
    hf = rp.find_body(tcp, r'async\s+fn\s+handle_failed_connection\s*\(')
    out += f'(* handle_failed_connection (failed TCP connect or failed TLS handshake) *)\nDefinition tcp_failed_call : retry_call := {single_call(hf, "connect_retry", "tcp/client.rs handle_failed_connection")}.\n'
    tc = rp.find_body(tcp, r'async\s+fn\s+try_connect_and_run\s*\(')
    if retry_calls(tc, 'connect_retry') or retry_calls(rp.find_body(tcp, r'async\s+fn\s+establish\s*\('), 'connect_retry'):
        raise ParseError('tcp/client.rs: a retry strategy call outside run_connection / handle_failed_connection')
    out += '\n'

    # ---- serial client
    ser = rp.read(f'{repo}/rodbus/src/serial/client.rs')
    to = rp.find_body(ser, r'async\s+fn\s+try_open_and_run\s*\(')
    out += '(* serial/client.rs: SerialChannelTask::try_open_and_run *)\n'
    out += emit_table('serial_session_arm', session_arms(to, 'retry', 'serial/client.rs try_open_and_run'))
    m = re.search(r'\bmatch\s+crate::serial::open\b', to)
    if not m:
        raise ParseError('serial/client.rs: no match on crate::serial::open')
    open_arms = dict((p.split('(')[0].strip(), e) for p, e in rp.match_arms(rp.block_after(to, m.start())[0]))
    if set(open_arms) != {'Err', 'Ok'}:
        raise ParseError('serial/client.rs: open arms not understood')
    out += f'Definition serial_failed_call : retry_call := {single_call(open_arms["Err"], "retry", "serial/client.rs open Err arm")}.\n'
    ok = open_arms['Ok']
    mm = re.search(r'\bmatch\s+self\s*\.\s*client_loop', ok)
    out += f'Definition serial_resets_on_open : bool := {"true" if mm and retry_calls(ok[:mm.start()], "retry") == ["reset"] else "false"}.\n\n'

    # ---- RTU server
    srv = rp.read(f'{repo}/rodbus/src/serial/server.rs')
    run = rp.find_body(srv, r'async\s+fn\s+run\s*\(\s*&mut\s+self\s*\)\s*->\s*Shutdown\s*\{')
    m = re.search(r'\bmatch\s+crate::serial::open\b', run)
    if not m:
        raise ParseError('serial/server.rs: no match on crate::serial::open')
    arms = dict((p.split('(')[0].strip(), e) for p, e in rp.match_arms(rp.block_after(run, m.start())[0]))
    if set(arms) != {'Err', 'Ok'}:
        raise ParseError('serial/server.rs: open arms not understood')
    okc = retry_calls(arms['Ok'], 'retry')
    if len(okc) != 2 or okc[0] != 'reset':
        raise ParseError(f'serial/server.rs: Ok arm calls {okc}, expected reset then one delay call')
    out += '(* serial/server.rs: RtuServerTask::run *)\n'
    out += f'Definition rtu_server_lost_call : retry_call := {CALLS[okc[1]]}.\n'
    out += f'Definition rtu_server_failed_call : retry_call := {single_call(arms["Err"], "retry", "serial/server.rs open Err arm")}.\n'
    out += 'Definition rtu_server_resets_on_open : bool := true.\n'
    return out
