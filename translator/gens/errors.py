"""Generator for Gen/ErrorMaps.v: the error enums of rodbus/src/error.rs with their structure and every
`impl From<X> for RequestError` / `impl From<InvalidRange> for InvalidRequest` conversion, so that the error
CLASS a caller sees (BadResponse / BadRequest / Internal / BadFrame / Io / Exception ...) for each failure the
codec models produce is computed from the code's own tables (theorems in Properties/C04_Errors.v).

Imports Gen/SessionErrors.v (request_error, from_request_err) for the class and the session-ending table.
"""
import re
import rustparse as rp
from rustparse import ParseError
from registry import generator

ENUMS = [('InvalidRange', 'Ir'), ('InvalidRequest', 'Iq'), ('InternalError', 'In'), ('FrameParseError', 'Fp'), ('AduParseError', 'Ap')]
PREFIX = dict(ENUMS)
COQ_TYPE = {'InvalidRange': 'invalid_range', 'InvalidRequest': 'invalid_request', 'InternalError': 'internal_error',
            'FrameParseError': 'frame_parse_error', 'AduParseError': 'adu_parse_error'}


def _variants(body, what):
    """[(name, payload type names)]"""
    res = []
    for item in rp.split_top(body):
        item = re.sub(r'#\[[^\]]*\]', '', item).strip()
        if not item:
            continue
        m = re.fullmatch(r'([A-Z][A-Za-z0-9]*)\s*(?:\((.*)\))?', item, re.S)
        if not m:
            raise ParseError(f'{what}: variant not understood: {item[:60]}')
        payload = [p.strip() for p in rp.split_top(m.group(2))] if m.group(2) else []
        res.append((m.group(1), payload))
    if not res:
        raise ParseError(f'{what}: no variants')
    return res


def _last(path):
    return path.strip().split('::')[-1]


def gen_enum(name, variants):
    """Coq inductive: a payload is kept only when it is one of the error enums"""
    parts = []
    for v, payload in variants:
        kept = [COQ_TYPE[_last(p)] for p in payload if _last(p) in COQ_TYPE]
        if len(kept) > 1:
            raise ParseError(f'{name}::{v}: more than one structured payload')
        parts.append(PREFIX[name] + v + (f' (e : {kept[0]})' if kept else ''))
    return f'Inductive {COQ_TYPE[name]} := ' + ' | '.join(parts) + '.\n'


class Ctx:
    def __init__(self, enums, req):
        self.enums = enums            # name -> [(variant, payload)]
        self.req = req                # RequestError variants [(variant, payload)]

    def has_struct_payload(self, enum, variant):
        vs = self.req if enum == 'RequestError' else self.enums[enum]
        for v, payload in vs:
            if v == variant:
                return any(_last(p) in COQ_TYPE for p in payload)
        raise ParseError(f'{enum} has no variant {variant}')


def target(ctx, expr, var, var_type):
    """translate a Rust expression building a RequestError / error enum value into a Coq term"""
    e = ' '.join(expr.split())
    if e == var:
        return 'e'
    if re.fullmatch(re.escape(var) + r'\.into\(\)', e):
        if var_type == 'InvalidRange':
            return '(invalid_request_of_range e)'
        raise ParseError(f'.into() on {var_type} not understood')
    m = re.fullmatch(r'([A-Za-z]+)::([A-Za-z0-9]+)(?:\s*\((.*)\))?', e)
    if not m:
        raise ParseError('conversion target not understood: ' + e)
    enum, variant, arg = m.group(1), m.group(2), m.group(3)
    if enum == 'RequestError':
        if variant not in [v for v, _ in ctx.req]:
            raise ParseError('unknown RequestError variant ' + variant)
        if ctx.has_struct_payload('RequestError', variant):
            if arg is None:
                raise ParseError(f'RequestError::{variant} needs a payload')
            return f'(Rq{variant} {target(ctx, arg, var, var_type)})'
        return 'Rq' + variant
    if enum in PREFIX:
        if variant not in [v for v, _ in ctx.enums[enum]]:
            raise ParseError(f'unknown {enum} variant {variant}')
        if ctx.has_struct_payload(enum, variant):
            return f'({PREFIX[enum]}{variant} {target(ctx, arg, var, var_type)})'
        return PREFIX[enum] + variant
    raise ParseError('conversion target not understood: ' + e)


@generator('ErrorMaps.v', 'rodbus/src/error.rs')
def gen_error_maps(repo):
    src = rp.read(f'{repo}/rodbus/src/error.rs')
    enums = {n: _variants(rp.find_body(src, r'pub\s+enum\s+' + n + r'\s*\{'), n) for n, _ in ENUMS}
    req = _variants(rp.find_body(src, r'pub\s+enum\s+RequestError\s*\{'), 'RequestError')
    ctx = Ctx(enums, req)
    out = 'From Rodbus Require Import Gen.SessionErrors.\n\n(* error.rs: the error enums (numeric payloads dropped, error payloads kept) *)\n'
    for n, _ in ENUMS:
        out += gen_enum(n, enums[n])
    parts = []
    for v, payload in req:
        kept = [COQ_TYPE[_last(p)] for p in payload if _last(p) in COQ_TYPE]
        parts.append('Rq' + v + (f' (e : {kept[0]})' if kept else ''))
    out += '(* enum RequestError with its structured payloads *)\nInductive request_error_full := ' + ' | '.join(parts) + '.\n'
    out += '(* its class: the payload-free enum of Gen/SessionErrors.v *)\nDefinition class_of_full (e : request_error_full) : request_error :=\n  match e with\n'
    for v, payload in req:
        kept = [p for p in payload if _last(p) in COQ_TYPE]
        out += f'  | Rq{v}{" _" if kept else ""} => Re{v}\n'
    out += '  end.\n\n'

    # impl From<InvalidRange> for InvalidRequest
    body = rp.find_body(src, r'impl\s+From<InvalidRange>\s+for\s+InvalidRequest\s*\{')
    m = re.search(r'fn\s+from\s*\(\s*([a-z_]+)\s*:\s*InvalidRange\s*\)\s*->\s*Self\s*\{', body)
    if not m:
        raise ParseError('From<InvalidRange> for InvalidRequest: fn from not found')
    fb = rp.block_after(body, m.end() - 1)[0].strip()
    out += '(* impl From<InvalidRange> for InvalidRequest *)\n'
    out += f'Definition invalid_request_of_range (e : invalid_range) : invalid_request := {target(ctx, fb, m.group(1), "InvalidRange")}.\n\n'

    # every impl From<X> for RequestError
    out += '(* impl From<X> for RequestError, one definition per X *)\n'
    seen = []
    for im in re.finditer(r'impl(?:<[^>]*>)?\s+From<([^{]+?)>\s+for\s+RequestError\s*\{', src):
        srct = ' '.join(im.group(1).split())
        body = rp.block_after(src, im.end() - 1)[0]
        m = re.search(r'fn\s+from\s*\(\s*([a-z_]+)\s*:\s*([^)]+)\)\s*->\s*Self\s*\{', body)
        if not m:
            raise ParseError(f'From<{srct}> for RequestError: fn from not found')
        var = m.group(1)
        fb = rp.block_after(body, m.end() - 1)[0].strip()
        short = _last(srct.split('<')[0])
        name = {'WriteError': 'write_error', 'Error': 'io_error', 'InvalidRequest': 'invalid_request', 'InternalError': 'internal_error',
                'AduParseError': 'adu_parse_error', 'ExceptionCode': 'exception_code', 'FrameParseError': 'frame_parse_error',
                'SendError': 'send_error', 'RecvError': 'recv_error', 'InvalidRange': 'invalid_range', 'ReadError': 'read_error',
                'TrailingBytes': 'trailing_bytes'}.get(short)
        if name is None:
            raise ParseError(f'From<{srct}> for RequestError: unknown source type')
        seen.append(name)
        if short in COQ_TYPE:
            out += f'Definition from_{name} (e : {COQ_TYPE[short]}) : request_error_full := {target(ctx, fb, var, short)}.\n'
        elif fb.startswith('match'):
            arms = rp.match_arms(rp.first_match_body(fb))
            # scursor::WriteError: variants from the patterns (or-patterns allowed)
            variants, lines = [], []
            for pat, expr in arms:
                t = target(ctx, expr, var, short)
                for alt in pat.split('|'):
                    pm = re.fullmatch(r'\s*' + short + r'::([A-Za-z]+)\s*(?:\{[^}]*\}|\([^)]*\))?\s*', alt)
                    if not pm:
                        raise ParseError(f'From<{srct}>: pattern not understood: {alt}')
                    variants.append(pm.group(1))
                    lines.append(f'  | {name.title().replace("_", "")}{pm.group(1)} => {t}\n')
            tname = name
            out += f'Inductive {tname} := ' + ' | '.join(name.title().replace('_', '') + v for v in variants) + '.\n'
            out += f'Definition from_{name} (e : {tname}) : request_error_full :=\n  match e with\n' + ''.join(lines) + '  end.\n'
        else:
            # constant target (the argument is ignored or only payload-free parts of it are used)
            out += f'Definition from_{name} : request_error_full := {target(ctx, fb, var, short)}.\n'
    need = ['write_error', 'io_error', 'invalid_request', 'internal_error', 'adu_parse_error', 'exception_code', 'frame_parse_error',
            'invalid_range', 'read_error', 'trailing_bytes']
    missing = [n for n in need if n not in seen]
    if missing:
        raise ParseError('no From impl for RequestError found for: ' + ', '.join(missing))
    return out
