"""Generator for Gen/FfiTables.v (C18): every enum crossing the C ABI (Rust-side definition and C-side
schema definition) as a Coq inductive with its `name` function, every conversion `match` as a Coq
function, `WriteResult::convert_to_result`, the body shape of the four RequestHandlerWrapper write
methods, the shapes of the eight client request functions and of the FutureType impls.

Narrow on purpose: unknown arm shapes raise ParseError.
"""
import re
import rustparse as rp
from rustparse import ParseError
from registry import generator


def coq_str(s):
    return '"' + ' '.join(s.split()).replace('"', '""') + '"'


def camel(snake):
    return ''.join(p[:1].upper() + p[1:] for p in snake.split('_'))


def matching(src, i, open_ch, close_ch):
    depth = 0
    for j in range(i, len(src)):
        if src[j] == open_ch:
            depth += 1
        elif src[j] == close_ch:
            depth -= 1
            if depth == 0:
                return j + 1
    raise ParseError('unbalanced ' + open_ch)


def strip_attrs(s):
    """remove #[...] attributes (possibly nested brackets)"""
    out, i = '', 0
    while i < len(s):
        if s.startswith('#[', i):
            i = matching(s, i + 1, '[', ']')
        else:
            out += s[i]
            i += 1
    return out


def rust_enum(src, name, where):
    """[(variant, has_payload)] of `pub enum name { .. }`"""
    m = re.search(r'pub\s+enum\s+' + name + r'\s*\{', src)
    if not m:
        raise ParseError(f'{where}: enum {name} not found')
    body = strip_attrs(src[m.end():matching(src, m.end() - 1, '{', '}') - 1])
    res = []
    for item in rp.split_top(body):
        if not item:
            continue
        mm = re.fullmatch(r'([A-Za-z_][A-Za-z0-9_]*)\s*(\(.*\)|\{.*\})?', item, re.S)
        if not mm:
            raise ParseError(f'{where}: enum {name}: variant not understood: {item[:50]}')
        res.append((mm.group(1), mm.group(2) is not None))
    if not res:
        raise ParseError(f'{where}: enum {name} has no variants')
    return res


def schema_consts(src):
    return {m.group(1): m.group(2) for m in re.finditer(r'const\s+([A-Z_]+)\s*:\s*&str\s*=\s*"([^"]*)"\s*;', src)}


def schema_chain(src, start_re, item_method, where):
    """names pushed by `.item_method(<name>, ..)` in the builder chain that starts at start_re and ends at .build()"""
    m = re.search(start_re, src)
    if not m:
        raise ParseError(f'{where}: {start_re} not found')
    end = src.find('.build()', m.end())
    if end < 0:
        raise ParseError(f'{where}: no .build() after {start_re}')
    chain = src[m.end():end]
    consts = schema_consts(src)
    names = []
    for c in re.finditer(r'\.\s*' + item_method + r'\s*\(', chain):
        close = matching(chain, c.end() - 1, '(', ')')
        args = rp.split_top(chain[c.end():close - 1])
        a = args[0].strip()
        if a.startswith('"') and a.endswith('"'):
            names.append(a[1:-1])
        elif a in consts:
            names.append(consts[a])
        elif a.startswith('format!(') and item_method == 'add_error':
            continue        # the per-exception loop; recognised separately by the caller
        else:
            raise ParseError(f'{where}: {item_method} name not a literal: {a[:40]}')
    return names, chain


def modbus_exception_table(src):
    m = re.search(r'const\s+MODBUS_EXCEPTION\s*:[^=]*=\s*&\s*\[', src)
    if not m:
        raise ParseError('schema common.rs: MODBUS_EXCEPTION not found')
    body = src[m.end():matching(src, m.end() - 1, '[', ']') - 1]
    res = []
    for item in rp.split_top(body):
        if not item:
            continue
        mm = re.match(r'\(\s*"([a-z_]+)"\s*,\s*(0x[0-9A-Fa-f]+|[0-9]+)\s*,', item)
        if not mm:
            raise ParseError('MODBUS_EXCEPTION entry not understood: ' + item[:40])
        res.append((mm.group(1), int(mm.group(2), 0)))
    return res


class Enums:
    """registry of generated inductives: key -> (coq type, constructor prefix, [(variant, payload coq type or None)])"""

    def __init__(self):
        self.e = {}
        self.order = []

    def add(self, key, ctype, prefix, variants, comment):
        self.e[key] = (ctype, prefix, variants, comment)
        self.order.append(key)

    def ctor(self, key, variant):
        ctype, prefix, variants, _ = self.e[key]
        if variant not in [v for v, _ in variants]:
            raise ParseError(f'conversion mentions {variant}, which is not a variant of {key} ({[v for v, _ in variants]})')
        return prefix + variant

    def payload(self, key, variant):
        return dict(self.e[key][2])[variant]

    def render(self):
        out = ''
        for key in self.order:
            ctype, prefix, variants, comment = self.e[key]
            out += f'(* {comment} *)\n'
            out += f'Inductive {ctype} :=\n'
            for v, p in variants:
                out += f'| {prefix}{v}' + (f' (p : {p})' if p else '') + '\n'
            out = out.rstrip('\n') + '.\n'
            out += f'Definition name_{ctype} (x : {ctype}) : string :=\n  match x with\n'
            for v, p in variants:
                out += f'  | {prefix}{v}' + (' _' if p else '') + f' => {coq_str(v)}\n'
            out += '  end.\n'
            plain = [v for v, p in variants if not p]
            out += f'Definition all_{ctype} : list {ctype} := [' + '; '.join(prefix + v for v in plain) + '].\n\n'
        return out


def arms_of(body, where, scrutinee_re=r'[^{]*'):
    arms = rp.match_arms(rp.first_match_body(body, scrutinee_re))
    for pat, _ in arms:
        if pat.strip() == '_' or re.fullmatch(r'[a-z_][a-z0-9_]*', pat.strip()):
            raise ParseError(f'{where}: catch-all arm `{pat}` in a conversion table')
    return arms


def variant_of(pat, enum_path_re, where):
    """`path::Variant` or `path::Variant(_)`/`(x)` -> (Variant, binder or None)"""
    m = re.fullmatch(r'(?:' + enum_path_re + r')::([A-Za-z0-9_]+)\s*(?:\(\s*([a-z_][a-z0-9_]*|_)\s*\))?', pat.strip())
    if not m:
        raise ParseError(f'{where}: pattern/expression not understood: {pat}')
    return m.group(1), m.group(2)


def conv_function(en, name, src_key, dst_key, pairs, comment, special=None):
    """Coq function from the arms; pairs = [(src_variant, coq rhs)]"""
    sctype, sprefix, svariants, _ = en.e[src_key]
    dctype = en.e[dst_key][0]
    out = f'(* {comment} *)\nDefinition {name} (x : {sctype}) : {dctype} :=\n  match x with\n'
    for sv, rhs in pairs:
        p = en.payload(src_key, sv)
        out += f'  | {en.ctor(src_key, sv)}' + (' p' if p else '') + f' => {rhs}\n'
    out += '  end.\n\n'
    return out


@generator('FfiTables.v', 'ffi/rodbus-ffi/src/helpers/conversions.rs', 'ffi/rodbus-ffi/src/helpers/ext.rs', 'ffi/rodbus-ffi/src/client.rs',
           'ffi/rodbus-ffi/src/server.rs', 'ffi/rodbus-ffi/src/error.rs', 'ffi/rodbus-schema/src/{common,client,server,decoding}.rs',
           'rodbus/src/{error,exception,decode,constants}.rs', 'rodbus/src/client/{listener,ffi_channel}.rs', 'rodbus/src/tcp/tls/mod.rs',
           'rodbus/src/server/handler.rs')
def gen_ffi_tables(repo):
    R = lambda p: rp.read(f'{repo}/{p}')
    conv = R('ffi/rodbus-ffi/src/helpers/conversions.rs')
    ext = R('ffi/rodbus-ffi/src/helpers/ext.rs')
    fclient = R('ffi/rodbus-ffi/src/client.rs')
    fserver = R('ffi/rodbus-ffi/src/server.rs')
    ferror = R('ffi/rodbus-ffi/src/error.rs')
    s_common = R('ffi/rodbus-schema/src/common.rs')
    s_client = R('ffi/rodbus-schema/src/client.rs')
    s_server = R('ffi/rodbus-schema/src/server.rs')
    s_decoding = R('ffi/rodbus-schema/src/decoding.rs')
    r_error = R('rodbus/src/error.rs')
    r_exception = R('rodbus/src/exception.rs')
    r_decode = R('rodbus/src/decode.rs')
    r_consts = R('rodbus/src/constants.rs')
    r_listener = R('rodbus/src/client/listener.rs')
    r_ffichan = R('rodbus/src/client/ffi_channel.rs')
    r_tls = R('rodbus/src/tcp/tls/mod.rs')
    r_handler = R('rodbus/src/server/handler.rs')

    en = Enums()
    # ------------------------------------------------------------------ Rust-side enums
    ex_vars = rust_enum(r_exception, 'ExceptionCode', 'exception.rs')
    if ('Unknown', True) not in ex_vars or any(p for v, p in ex_vars if v != 'Unknown'):
        raise ParseError('exception.rs: ExceptionCode is not nine unit variants + Unknown(u8)')
    en.add('r_exception', 'rust_exception_code', 'REC_', [(v, 'N' if p else None) for v, p in ex_vars], 'rodbus/src/exception.rs: enum ExceptionCode (Unknown carries the raw byte)')
    re_vars = rust_enum(r_error, 'RequestError', 'error.rs')
    en.add('r_request_error', 'rust_request_error', 'RRE_', [(v, 'rust_exception_code' if v == 'Exception' else None) for v, p in re_vars],
           'rodbus/src/error.rs: enum RequestError (payloads other than the exception code are not modelled)')
    for key, ctype, prefix, src, name, where in [
        ('r_client_state', 'rust_client_state', 'RCS_', r_listener, 'ClientState', 'client/listener.rs'),
        ('r_port_state', 'rust_port_state', 'RPS_', r_listener, 'PortState', 'client/listener.rs'),
        ('r_app', 'rust_app_decode_level', 'RAD_', r_decode, 'AppDecodeLevel', 'decode.rs'),
        ('r_frame', 'rust_frame_decode_level', 'RFD_', r_decode, 'FrameDecodeLevel', 'decode.rs'),
        ('r_phys', 'rust_phys_decode_level', 'RPD_', r_decode, 'PhysDecodeLevel', 'decode.rs'),
        ('r_authorization', 'rust_authorization', 'RAU_', r_handler, 'Authorization', 'server/handler.rs'),
        ('r_min_tls', 'rust_min_tls_version', 'RTV_', r_tls, 'MinTlsVersion', 'tcp/tls/mod.rs'),
        ('r_cert_mode', 'rust_certificate_mode', 'RCM_', r_tls, 'CertificateMode', 'tcp/tls/mod.rs'),
        ('r_tls_error', 'rust_tls_error', 'RTE_', r_tls, 'TlsError', 'tcp/tls/mod.rs'),
        ('r_ffi_channel_error', 'rust_ffi_channel_error', 'RFC_', r_ffichan, 'FfiChannelError', 'client/ffi_channel.rs'),
    ]:
        en.add(key, ctype, prefix, [(v, None) for v, _ in rust_enum(src, name, where)], f'rodbus/src/{where}: enum {name} (payloads not modelled)')

    # ------------------------------------------------------------------ C-side enums (schema)
    mex = modbus_exception_table(s_common)
    pe, _ = schema_chain(s_common, r'define_error_type\(\s*"param_error"', 'add_error', 'schema common.rs param_error')
    en.add('f_param_error', 'ffi_param_error', 'FPE_', [('Ok', None)] + [(camel(n), None) for n in pe], 'ffi/rodbus-schema/src/common.rs: error type param_error (Ok = 0 is implicit)')
    rq, rq_chain = schema_chain(s_common, r'define_error_type\(\s*"request_error"', 'add_error', 'schema common.rs request_error')
    # the per-exception errors are added by a loop over MODBUS_EXCEPTION after the chain
    if not re.search(r'for\s*\(\s*name\s*,\s*_value\s*,\s*desc\s*\)\s*in\s+MODBUS_EXCEPTION\s*\{\s*builder\s*=\s*builder\s*\.\s*add_error\(\s*format!\(\s*"modbus_exception_\{name\}"\s*\)', s_common):
        raise ParseError('schema common.rs: loop adding modbus_exception_{name} errors not found')
    en.add('f_request_error', 'ffi_request_error', 'FRE_', [('Ok', None)] + [(camel(n), None) for n in rq] + [(camel('modbus_exception_' + n), None) for n, _ in mex],
           'ffi/rodbus-schema/src/common.rs: error type request_error (+ one error per MODBUS_EXCEPTION entry; Ok = 0 is implicit)')
    if not re.search(r'for\s*\(\s*name\s*,\s*value\s*,\s*desc\s*\)\s*in\s+MODBUS_EXCEPTION\s*\{\s*builder\s*=\s*builder\s*\.\s*variant\(\s*name\s*,\s*\*value\s+as\s+i32', s_common):
        raise ParseError('schema common.rs: loop defining enum modbus_exception not found')
    en.add('f_modbus_exception', 'ffi_modbus_exception', 'FME_', [(camel(n), None) for n, _ in mex], 'ffi/rodbus-schema/src/common.rs: enum modbus_exception (from MODBUS_EXCEPTION)')
    for key, ctype, prefix, src, sname, where in [
        ('f_client_state', 'ffi_client_state', 'FCS_', s_client, 'client_state', 'client.rs'),
        ('f_port_state', 'ffi_port_state', 'FPS_', s_client, 'port_state', 'client.rs'),
        ('f_app', 'ffi_app_decode_level', 'FAD_', s_decoding, 'app_decode_level', 'decoding.rs'),
        ('f_frame', 'ffi_frame_decode_level', 'FFD_', s_decoding, 'frame_decode_level', 'decoding.rs'),
        ('f_phys', 'ffi_phys_decode_level', 'FPD_', s_decoding, 'phys_decode_level', 'decoding.rs'),
        ('f_authorization', 'ffi_authorization', 'FAU_', s_server, 'authorization', 'server.rs'),
        ('f_min_tls', 'ffi_min_tls_version', 'FTV_', s_common, 'min_tls_version', 'common.rs'),
        ('f_cert_mode', 'ffi_certificate_mode', 'FCM_', s_common, 'certificate_mode', 'common.rs'),
        ('f_data_bits', 'ffi_data_bits', 'FDB_', s_common, 'data_bits', 'common.rs'),
        ('f_flow_control', 'ffi_flow_control', 'FFC_', s_common, 'flow_control', 'common.rs'),
        ('f_parity', 'ffi_parity', 'FPA_', s_common, 'parity', 'common.rs'),
        ('f_stop_bits', 'ffi_stop_bits', 'FSB_', s_common, 'stop_bits', 'common.rs'),
    ]:
        names, _ = schema_chain(src, r'define_enum\(\s*"' + sname + r'"\s*\)', 'push', f'schema {where} {sname}')
        if not names:
            raise ParseError(f'schema {where}: enum {sname} has no pushed variants')
        en.add(key, ctype, prefix, [(camel(n), None) for n in names], f'ffi/rodbus-schema/src/{where}: enum {sname}')

    funcs = ''
    tables = []     # (coq function, src key, dst key, direction)

    # ------------------------------------------------------------------ serial settings: Rust side from tokio_serial (not in the repo): variants = targets of the arms
    serial_body = rp.find_body(conv, r'impl\s+From<ffi::SerialPortSettings>\s+for\s+rodbus::SerialSettings\s*\{')
    for field, fkey, rkey, rtype, rprefix, rname in [('data_bits', 'f_data_bits', 'r_data_bits', 'rust_data_bits', 'RDB_', 'DataBits'),
                                                      ('flow_control', 'f_flow_control', 'r_flow_control', 'rust_flow_control', 'RFL_', 'FlowControl'),
                                                      ('parity', 'f_parity', 'r_parity', 'rust_parity', 'RPA_', 'Parity'),
                                                      ('stop_bits', 'f_stop_bits', 'r_stop_bits', 'rust_stop_bits', 'RSB_', 'StopBits')]:
        m = re.search(field + r'\s*:\s*match\s+from\s*\.\s*' + field + r'\s*\(\s*\)\s*\{', serial_body)
        if not m:
            raise ParseError(f'conversions.rs SerialSettings: `{field}: match from.{field}()` not found')
        arms = rp.match_arms(serial_body[m.end():matching(serial_body, m.end() - 1, '{', '}') - 1])
        pairs = []
        targets = []
        for pat, expr in arms:
            sv, b = variant_of(pat, r'ffi::' + rname, 'SerialSettings.' + field)
            dv, b2 = variant_of(expr, r'rodbus::' + rname, 'SerialSettings.' + field)
            if b or b2:
                raise ParseError('SerialSettings arm with payload')
            pairs.append((sv, dv))
            if dv not in targets:
                targets.append(dv)
        en.add(rkey, rtype, rprefix, [(v, None) for v in targets], f'tokio_serial::{rname} (defined outside the repository: variants = the targets of the conversion arms)')
        funcs += conv_function(en, f'{field}_from_ffi', fkey, rkey, [(s, en.ctor(rkey, d)) for s, d in pairs],
                               f'conversions.rs: From<ffi::SerialPortSettings> for rodbus::SerialSettings, field {field}')
        tables.append((f'{field}_from_ffi', fkey, rkey))

    # ------------------------------------------------------------------ exception code <-> byte (rodbus)
    cmod = rp.find_body(r_consts, r'pub\s+mod\s+exceptions\s*\{')
    cvals = {k: rp.eval_const(v, {}) for k, v in rp.consts(cmod).items()}
    from_u8 = arms_of_allow_default(rp.find_body(r_exception, r'impl\s+From<u8>\s+for\s+ExceptionCode\s*\{'))
    f = '(* rodbus/src/exception.rs: impl From<u8> for ExceptionCode (constants from constants.rs::exceptions) *)\n'
    f += 'Definition exception_from_u8 (b : N) : rust_exception_code :=\n  match b with\n'
    seen_default = False
    for pat, expr in from_u8:
        if pat == '_':
            if ''.join(expr.split()) != 'ExceptionCode::Unknown(value)':
                raise ParseError('exception.rs From<u8>: default arm is not Unknown(value)')
            seen_default = True
            continue
        cname = pat.split('::')[-1]
        if cname not in cvals:
            raise ParseError(f'exception.rs From<u8>: unknown constant {pat}')
        v, b = variant_of(expr, r'ExceptionCode', 'exception.rs From<u8>')
        f += f'  | {cvals[cname]} => {en.ctor("r_exception", v)}\n'
    if not seen_default:
        raise ParseError('exception.rs From<u8>: no default arm')
    f += '  | _ => REC_Unknown b\n  end.\n\n'
    to_u8 = arms_of(rp.find_body(r_exception, r'impl\s+From<ExceptionCode>\s+for\s+u8\s*\{'), 'exception.rs From<ExceptionCode> for u8')
    f += '(* rodbus/src/exception.rs: impl From<ExceptionCode> for u8 *)\nDefinition exception_to_u8 (x : rust_exception_code) : N :=\n  match x with\n'
    for pat, expr in to_u8:
        v, b = variant_of(pat, r'ExceptionCode', 'exception.rs to u8')
        if v == 'Unknown':
            if expr.strip() != b:
                raise ParseError('exception.rs to u8: Unknown(value) arm does not return the value')
            f += '  | REC_Unknown p => p\n'
        else:
            cname = expr.split('::')[-1]
            if cname not in cvals:
                raise ParseError(f'exception.rs to u8: unknown constant {expr}')
            f += f'  | {en.ctor("r_exception", v)} => {cvals[cname]}\n'
    f += '  end.\n\n'
    funcs += f
    # the numeric value the C side attaches to each modbus_exception variant (schema)
    funcs += '(* ffi/rodbus-schema/src/common.rs MODBUS_EXCEPTION: numeric value of each C-side variant *)\n'
    funcs += 'Definition ffi_modbus_exception_value (x : ffi_modbus_exception) : N :=\n  match x with\n'
    for n, v in mex:
        funcs += f'  | {en.ctor("f_modbus_exception", camel(n))} => {v}\n'
    funcs += '  end.\n\n'

    # ------------------------------------------------------------------ ExceptionCode -> ffi::RequestError
    arms = arms_of(rp.find_body(conv, r'impl\s+From<rodbus::ExceptionCode>\s+for\s+ffi::RequestError\s*\{'), 'conversions.rs ExceptionCode')
    pairs = []
    for pat, expr in arms:
        sv, b = variant_of(pat, r'rodbus::ExceptionCode', 'conversions.rs ExceptionCode')
        dv, b2 = variant_of(expr, r'ffi::RequestError', 'conversions.rs ExceptionCode')
        pairs.append((sv, en.ctor('f_request_error', dv)))
    funcs += conv_function(en, 'exception_to_ffi', 'r_exception', 'f_request_error', pairs, 'conversions.rs: impl From<rodbus::ExceptionCode> for ffi::RequestError')
    tables.append(('exception_to_ffi', 'r_exception', 'f_request_error'))

    # ------------------------------------------------------------------ RequestError -> ffi::RequestError
    arms = arms_of(rp.find_body(conv, r'impl\s+From<rodbus::RequestError>\s+for\s+ffi::RequestError\s*\{'), 'conversions.rs RequestError')
    pairs = []
    for pat, expr in arms:
        sv, b = variant_of(pat, r'rodbus::RequestError', 'conversions.rs RequestError')
        if sv == 'Exception':
            if b in (None, '_') or ''.join(expr.split()) != f'{b}.into()':
                raise ParseError(f'conversions.rs RequestError: Exception arm is not `Exception(ex) => ex.into()` but `{expr}`')
            pairs.append((sv, 'exception_to_ffi p'))
        else:
            dv, _ = variant_of(expr, r'ffi::RequestError', 'conversions.rs RequestError')
            pairs.append((sv, en.ctor('f_request_error', dv)))
    funcs += conv_function(en, 'request_error_to_ffi', 'r_request_error', 'f_request_error', pairs, 'conversions.rs: impl From<rodbus::RequestError> for ffi::RequestError')
    tables.append(('request_error_to_ffi', 'r_request_error', 'f_request_error'))

    # ------------------------------------------------------------------ plain enum-to-enum tables
    def plain(fn_name, body, src_key, dst_key, src_path, dst_path, where, comment):
        nonlocal funcs
        arms = arms_of(body, where)
        pairs = []
        for pat, expr in arms:
            sv, _ = variant_of(pat, src_path, where)
            dv, _ = variant_of(expr, dst_path, where)
            pairs.append((sv, en.ctor(dst_key, dv)))
        funcs += conv_function(en, fn_name, src_key, dst_key, pairs, comment)
        tables.append((fn_name, src_key, dst_key))

    plain('client_state_to_ffi', rp.find_body(fclient, r'impl\s+From<ClientState>\s+for\s+ffi::ClientState\s*\{'), 'r_client_state', 'f_client_state',
          r'ClientState', r'ffi::ClientState', 'client.rs ClientState', 'ffi client.rs: impl From<ClientState> for ffi::ClientState')
    plain('port_state_to_ffi', rp.find_body(fclient, r'impl\s+From<rodbus::client::PortState>\s+for\s+ffi::PortState\s*\{'), 'r_port_state', 'f_port_state',
          r'rodbus::client::PortState', r'ffi::PortState', 'client.rs PortState', 'ffi client.rs: impl From<rodbus::client::PortState> for ffi::PortState')
    dl = rp.find_body(conv, r'impl\s+From<ffi::DecodeLevel>\s+for\s+rodbus::DecodeLevel\s*\{')
    for field, fkey, rkey, nm in [('app', 'f_app', 'r_app', 'AppDecodeLevel'), ('frame', 'f_frame', 'r_frame', 'FrameDecodeLevel'), ('physical', 'f_phys', 'r_phys', 'PhysDecodeLevel')]:
        m = re.search(field + r'\s*:\s*match\s+level\s*\.\s*' + field + r'\s*\(\s*\)\s*\{', dl)
        if not m:
            raise ParseError(f'conversions.rs DecodeLevel: `{field}: match level.{field}()` not found')
        sub = 'match x {' + dl[m.end():matching(dl, m.end() - 1, '{', '}') - 1] + '}'
        plain(f'{field}_decode_from_ffi', sub, fkey, rkey, r'ffi::' + nm, r'rodbus::' + nm, 'conversions.rs DecodeLevel.' + field,
              f'conversions.rs: From<ffi::DecodeLevel> for rodbus::DecodeLevel, field {field}')
    plain('authorization_from_ffi', rp.find_body(conv, r'impl\s+From<ffi::Authorization>\s+for\s+Authorization\s*\{'), 'f_authorization', 'r_authorization',
          r'ffi::Authorization', r'Self', 'conversions.rs Authorization', 'conversions.rs: impl From<ffi::Authorization> for Authorization')
    plain('min_tls_from_ffi', rp.find_body(conv, r'impl\s+From<ffi::MinTlsVersion>\s+for\s+rodbus::client::MinTlsVersion\s*\{'), 'f_min_tls', 'r_min_tls',
          r'ffi::MinTlsVersion', r'rodbus::client::MinTlsVersion', 'conversions.rs MinTlsVersion', 'conversions.rs: impl From<ffi::MinTlsVersion> for rodbus::client::MinTlsVersion')
    plain('cert_mode_from_ffi', rp.find_body(conv, r'impl\s+From<ffi::CertificateMode>\s+for\s+rodbus::client::CertificateMode\s*\{'), 'f_cert_mode', 'r_cert_mode',
          r'ffi::CertificateMode', r'rodbus::client::CertificateMode', 'conversions.rs CertificateMode', 'conversions.rs: impl From<ffi::CertificateMode> for rodbus::client::CertificateMode')
    plain('tls_error_to_ffi', rp.find_body(conv, r'impl\s+From<rodbus::client::TlsError>\s+for\s+ffi::ParamError\s*\{'), 'r_tls_error', 'f_param_error',
          r'rodbus::client::TlsError', r'ffi::ParamError', 'conversions.rs TlsError', 'conversions.rs: impl From<rodbus::client::TlsError> for ffi::ParamError')

    # ------------------------------------------------------------------ simple `fn from(_: X) -> Self { ffi::ParamError::Y }` impls
    simple = []
    for src_text, where in [(ferror, 'error.rs'), (conv, 'conversions.rs'), (fserver, 'server.rs')]:
        for m in re.finditer(r'impl\s+From<([A-Za-z0-9_:]+)>\s+for\s+ffi::ParamError\s*\{\s*fn\s+from\s*\(\s*_\s*:\s*[A-Za-z0-9_:]+\s*\)\s*->\s*Self\s*\{\s*ffi::ParamError::(\w+)\s*\}\s*\}', src_text):
            simple.append((m.group(1).split('::')[-1], m.group(2)))
            en.ctor('f_param_error', m.group(2))
    sd = dict(simple)
    for need in ('InvalidRange', 'InvalidRequest', 'AddrParseError', 'Shutdown', 'BadIpv4Wildcard'):
        if need not in sd:
            raise ParseError(f'simple From<{need}> for ffi::ParamError impl not found')
    funcs += '(* error.rs / conversions.rs / server.rs: impl From<X> for ffi::ParamError { fn from(_) -> Self { ffi::ParamError::Y } } *)\n'
    funcs += 'Definition simple_param_errors : list (string * ffi_param_error) := [' + '; '.join(f'({coq_str(a)}, FPE_{b})' for a, b in simple) + '].\n\n'

    # ------------------------------------------------------------------ FfiChannelError -> ParamError; TrySendError -> FfiChannelError
    arms = arms_of(rp.find_body(fclient, r'impl\s+From<FfiChannelError>\s+for\s+ParamError\s*\{'), 'client.rs FfiChannelError')
    pairs = []
    for pat, expr in arms:
        sv, b = variant_of(pat, r'FfiChannelError', 'client.rs FfiChannelError')
        if b not in (None, '_') and ''.join(expr.split()) == f'{b}.into()':
            if sv != 'BadRange':
                raise ParseError('client.rs FfiChannelError: only BadRange may delegate with .into()')
            pairs.append((sv, 'FPE_' + sd['InvalidRange'] + ' (* via From<InvalidRange> *)'))
        else:
            dv, _ = variant_of(expr, r'ParamError', 'client.rs FfiChannelError')
            pairs.append((sv, en.ctor('f_param_error', dv)))
    funcs += conv_function(en, 'ffi_channel_error_to_ffi', 'r_ffi_channel_error', 'f_param_error', pairs, 'ffi client.rs: impl From<FfiChannelError> for ParamError')
    arms = arms_of(rp.find_body(r_ffichan, r'impl<T>\s+From<TrySendError<T>>\s+for\s+FfiChannelError\s*\{'), 'ffi_channel.rs TrySendError')
    funcs += '(* rodbus/src/client/ffi_channel.rs: impl From<TrySendError<T>> for FfiChannelError *)\nInductive try_send_error := TSE_Full | TSE_Closed.\n'
    funcs += 'Definition try_send_error_to_channel_error (x : try_send_error) : rust_ffi_channel_error :=\n  match x with\n'
    seen = set()
    for pat, expr in arms:
        sv, _ = variant_of(pat, r'TrySendError', 'ffi_channel.rs TrySendError')
        dv, _ = variant_of(expr, r'FfiChannelError', 'ffi_channel.rs TrySendError')
        if sv not in ('Full', 'Closed'):
            raise ParseError('TrySendError variant ' + sv)
        seen.add(sv)
        funcs += f'  | TSE_{sv} => {en.ctor("r_ffi_channel_error", dv)}\n'
    if seen != {'Full', 'Closed'}:
        raise ParseError('TrySendError table incomplete')
    funcs += '  end.\n'
    send_body = rp.find_body(r_ffichan, r'fn\s+send\s*\(\s*&mut\s+self\s*,\s*command\s*:\s*Command\s*\)\s*->\s*Result<\(\),\s*FfiChannelError>\s*\{')
    uses_try_send = ''.join(send_body.split()) == 'self.tx.try_send(command)?;Ok(())'
    funcs += f'(* FfiChannel::send is exactly `self.tx.try_send(command)?; Ok(())` (the rejected command is dropped by the `?` conversion) *)\nDefinition send_is_try_send : bool := {"true" if uses_try_send else "false"}.\n\n'

    # ------------------------------------------------------------------ WriteResult::convert_to_result
    ctr = rp.find_body(ext, r'pub\(crate\)\s+fn\s+convert_to_result\s*\(\s*self\s*\)\s*->\s*Result<\(\),\s*rodbus::ExceptionCode>\s*\{')
    flat = ''.join(ctr.split())
    m = re.fullmatch(r'ifself\.success\(\)\{returnOk\(\(\)\);\}letex=matchself\.exception\(\)\{(.*)\};Err\(ex\)', flat)
    if not m:
        raise ParseError('ext.rs convert_to_result: body is not `if self.success() { return Ok(()); } let ex = match self.exception() {..}; Err(ex)`')
    arms = arms_of(ctr, 'ext.rs convert_to_result', r'self\s*\.\s*exception\s*\(\s*\)\s*')
    funcs += '(* ext.rs: WriteResult::convert_to_result; None = Ok(()), Some e = Err(e) *)\n'
    funcs += 'Definition convert_to_result (success : bool) (exception : ffi_modbus_exception) (raw_exception : N) : option rust_exception_code :=\n'
    funcs += '  if success then None else Some\n  match exception with\n'
    for pat, expr in arms:
        sv, _ = variant_of(pat, r'ffi::ModbusException', 'convert_to_result')
        e = ''.join(expr.split())
        if e == 'rodbus::ExceptionCode::Unknown(self.raw_exception())':
            rhs = 'REC_Unknown raw_exception'
        else:
            dv, b = variant_of(expr, r'rodbus::ExceptionCode', 'convert_to_result')
            if b is not None or dv == 'Unknown':
                raise ParseError('convert_to_result arm with unexpected payload: ' + expr)
            rhs = en.ctor('r_exception', dv)
        funcs += f'  | {en.ctor("f_modbus_exception", sv)} => {rhs}\n'
    funcs += '  end.\n\n'

    # ------------------------------------------------------------------ RequestHandlerWrapper write methods
    impl = rp.find_body(fserver, r'impl\s+RequestHandler\s+for\s+RequestHandlerWrapper\s*\{')
    funcs += '(* server.rs: impl RequestHandler for RequestHandlerWrapper, the four write methods:\n'
    funcs += '   which C callback is invoked, what the `Some(x)` arm returns, what the `None` arm (callback not set) returns *)\n'
    funcs += 'Inductive some_arm := UsesConvertToResult | OtherSomeArm (e : string).\n'
    funcs += 'Inductive none_arm := ErrException (e : rust_exception_code) | OtherNoneArm (e : string).\n'
    funcs += 'Record write_wrapper := { ww_method : string; ww_callback : string; ww_some : some_arm; ww_none : none_arm }.\n'
    rows = []
    for meth in ['write_single_coil', 'write_single_register', 'write_multiple_coils', 'write_multiple_registers']:
        body = rp.find_body(impl, r'fn\s+' + meth + r'\s*\(\s*&mut\s+self\s*,[^)]*\)\s*->\s*Result<\(\),\s*ExceptionCode>\s*\{')
        mm = re.search(r'\bmatch\s+self\s*\.\s*write_handler\s*\.\s*(\w+)\s*\(', body)
        if not mm:
            raise ParseError(f'server.rs {meth}: no `match self.write_handler.<callback>(..)`')
        # the match must be the tail expression of the method
        mstart = mm.start()
        block_open = body.find('{', matching(body, mm.end() - 1, '(', ')'))
        block_close = matching(body, block_open, '{', '}')
        if body[block_close:].strip():
            raise ParseError(f'server.rs {meth}: statements after the match on the callback result')
        arms = rp.match_arms(body[block_open + 1:block_close - 1])
        some = none = None
        for pat, expr in arms:
            p = ''.join(pat.split())
            e = ''.join(expr.split())
            ms = re.fullmatch(r'Some\((\w+)\)', p)
            if ms:
                some = 'UsesConvertToResult' if e == f'{ms.group(1)}.convert_to_result()' else 'OtherSomeArm ' + coq_str(expr)
            elif p == 'None':
                me = re.fullmatch(r'Err\(ExceptionCode::(\w+)\)', e)
                none = f'ErrException {en.ctor("r_exception", me.group(1))}' if me else 'OtherNoneArm ' + coq_str(expr)
            else:
                raise ParseError(f'server.rs {meth}: arm `{pat}` not understood')
        if some is None or none is None:
            raise ParseError(f'server.rs {meth}: Some/None arms not both present')
        rows.append(f'  {{| ww_method := {coq_str(meth)}; ww_callback := {coq_str(mm.group(1))}; ww_some := {some}; ww_none := {none} |}}')
    funcs += 'Definition write_wrappers : list write_wrapper := [\n' + ';\n'.join(rows) + '\n].\n\n'

    # ------------------------------------------------------------------ FutureType impls (ext.rs): on_drop value and complete shape
    funcs += '(* ext.rs: the three sfio_promise::FutureType impls: value produced when a promise is dropped uncompleted, and the shape of `complete` *)\n'
    funcs += 'Record future_type := { ft_callback : string; ft_on_drop : option rust_request_error (* Some e = Err(e) *); ft_complete_ok_calls_on_complete : bool; ft_complete_err_calls_on_failure_into : bool }.\n'
    rows = []
    for m in re.finditer(r'impl<[^>]*>\s+sfio_promise::FutureType<\s*Result<[^{]*?>\s*>\s*for\s+ffi::(\w+)\s*\{', ext):
        body = ext[m.end():matching(ext, m.end() - 1, '{', '}') - 1]
        od = ''.join(rp.find_body(body, r'fn\s+on_drop\s*\(\s*\)\s*->[^{]*\{').split())
        mo = re.fullmatch(r'Err\((?:rodbus::)?RequestError::(\w+)\)', od)
        on_drop = f'Some {en.ctor("r_request_error", mo.group(1))}' if mo and not en.payload('r_request_error', mo.group(1)) else 'None'
        comp = rp.find_body(body, r'fn\s+complete\s*\(\s*self\s*,\s*result\s*:[^{]*\{')
        carms = rp.match_arms(rp.first_match_body(comp, r'result\s*'))
        ok_calls = err_calls = False
        if len(carms) != 2:
            raise ParseError(f'ext.rs FutureType for {m.group(1)}: complete does not have exactly Ok/Err arms')
        for pat, expr in carms:
            p = ''.join(pat.split())
            e = ''.join(expr.split())
            if re.fullmatch(r'Ok\(\w+\)', p):
                ok_calls = e.count('self.on_complete(') == 1 and 'self.on_failure(' not in e
            elif re.fullmatch(r'Err\((\w+)\)', p):
                v = re.fullmatch(r'Err\((\w+)\)', p).group(1)
                err_calls = e.rstrip(';') in (f'self.on_failure({v}.into())', f'{{self.on_failure({v}.into())}}', f'{{self.on_failure({v}.into());}}')
            else:
                raise ParseError(f'ext.rs FutureType for {m.group(1)}: arm {pat}')
        rows.append(f'  {{| ft_callback := {coq_str(m.group(1))}; ft_on_drop := {on_drop}; ft_complete_ok_calls_on_complete := {"true" if ok_calls else "false"}; ft_complete_err_calls_on_failure_into := {"true" if err_calls else "false"} |}}')
    if len(rows) != 3:
        raise ParseError(f'ext.rs: expected 3 FutureType impls, found {len(rows)}')
    funcs += 'Definition future_types : list future_type := [\n' + ';\n'.join(rows) + '\n].\n\n'

    # ------------------------------------------------------------------ the eight client request functions (ffi client.rs): order of steps
    funcs += '(* ffi client.rs: the statements of each client_channel_<request> function, in order *)\n'
    funcs += 'Inductive call_step :=\n| CheckNull (what : string)            (* x.as_mut()/as_ref().ok_or(ParamError::NullParameter)? *)\n'
    funcs += '| Validate (what : string)             (* AddressRange::try_from(..)? / WriteMultiple::from(..)? : error returned, nothing sent *)\n'
    funcs += '| WrapPromise                          (* let callback = sfio_promise::wrap(callback); *)\n'
    funcs += '| SendViaChannel (method : string) (completes_wrapped : bool)   (* channel.inner.<method>(param.into(), <arg>, |res| callback.complete(res))?; *)\n'
    funcs += '| ReturnOk\n| OtherStep (e : string).\n'
    rows = []
    list_rows = []
    methods = ['read_coils', 'read_discrete_inputs', 'read_holding_registers', 'read_input_registers',
               'write_single_coil', 'write_single_register', 'write_multiple_coils', 'write_multiple_registers']
    for meth in methods:
        body = rp.find_body(fclient, r'pub\(crate\)\s+unsafe\s+fn\s+client_channel_' + meth + r'\s*\(')
        # find_body above locates the parameter list's `(`; take the function body instead
        mfn = re.search(r'pub\(crate\)\s+unsafe\s+fn\s+client_channel_' + meth + r'\s*\(', fclient)
        pclose = matching(fclient, mfn.end() - 1, '(', ')')
        bopen = fclient.find('{', pclose)
        body = fclient[bopen + 1:matching(fclient, bopen, '{', '}') - 1]
        steps = []
        borrow, taken = None, None
        for stmt in [s for s in rp.split_top(body, ';') if s.strip()]:
            t = ''.join(stmt.split())
            mn = re.fullmatch(r'let(\w+)=\1\.as_(mut|ref)\(\)\.ok_or\(ffi::ParamError::NullParameter\)\?', t)
            mw = re.fullmatch(r'letargs=WriteMultiple::from\(start,(.+)\)\?', t)
            if mn:
                steps.append(f'CheckNull {coq_str(mn.group(1))}')
                if mn.group(1) == 'items':
                    borrow = 'as_' + mn.group(2)
            elif mw:
                # how the values leave the caller's list object is recorded in `list_args`
                steps.append('Validate "WriteMultiple::from"')
                taken = mw.group(1)
            elif re.fullmatch(r'letrange=AddressRange::try_from\(range\.start,range\.count\)\?', t):
                steps.append('Validate "AddressRange::try_from"')
            elif t == 'letcallback=sfio_promise::wrap(callback)':
                steps.append('WrapPromise')
            elif t == 'Ok(())':
                steps.append('ReturnOk')
            else:
                ms = re.fullmatch(r'channel\.inner\.(\w+)\(param\.into\(\),([\w.()]+),\|res\|callback\.complete\(res\)\)\?', t)
                if ms:
                    steps.append(f'SendViaChannel {coq_str(ms.group(1))} true')
                else:
                    steps.append('OtherStep ' + coq_str(stmt))
        rows.append(f'  ({coq_str(meth)}, [' + '; '.join(steps) + '])')
        if meth.startswith('write_multiple'):
            if borrow is None or taken is None:
                raise ParseError(f'client.rs client_channel_{meth}: no `items.as_ref()/as_mut()` null check or no `WriteMultiple::from(start, ..)`')
            if 'items' not in taken:
                raise ParseError(f'client.rs client_channel_{meth}: WriteMultiple::from(start, {taken}) does not mention `items`')
            list_rows.append(f'  ({coq_str(meth)}, {coq_str(borrow)}, {coq_str(taken)})')
    funcs += 'Definition client_calls : list (string * list call_step) := [\n' + ';\n'.join(rows) + '\n].\n'
    funcs += ('(* the caller-owned rodbus_bit_list / rodbus_register_list of the two write-multiple functions: (function, how the handle is\n'
              '   borrowed, the expression - whitespace removed - that hands its values to WriteMultiple::from) *)\n')
    funcs += 'Definition list_args : list (string * string * string) := [\n' + ';\n'.join(list_rows) + '\n].\n\n'

    # FfiChannel (rodbus/src/client/ffi_channel.rs): order of limit check / promise creation / send per method
    funcs += '(* rodbus/src/client/ffi_channel.rs: statements of the FfiChannel request methods, in order *)\n'
    funcs += 'Inductive channel_step :=\n| LimitCheck (what : string)     (* range.of_read_bits()? / of_read_registers()? : BadRange returned *)\n'
    funcs += '| MakePromise                  (* Promise::new(callback): the rodbus promise, fails with Shutdown when dropped *)\n'
    funcs += '| TrySend                      (* self.send(wrap(param, <details holding the promise>)) *)\n| OtherChannelStep (e : string).\n'

    def fn_body_of(src, header_re, where):
        m = re.search(header_re, src)
        if not m:
            raise ParseError(f'{where}: not found')
        pclose = matching(src, m.end() - 1, '(', ')')
        bopen = src.find('{', pclose)
        return src[bopen + 1:matching(src, bopen, '{', '}') - 1]
    crow = []
    for meth, hdr in [('read_bits', r'fn\s+read_bits<C,\s*W>\s*\('), ('read_registers', r'fn\s+read_registers<C,\s*W>\s*\(')]:
        body = fn_body_of(r_ffichan, hdr, 'ffi_channel.rs ' + meth)
        steps = []
        for stmt in [x for x in rp.split_top(body, ';') if x.strip()]:
            t = ''.join(stmt.split())
            if re.fullmatch(r'letrange=range\.(of_read_bits|of_read_registers)\(\)\?', t):
                steps.append('LimitCheck ' + coq_str(re.search(r'of_read_\w+', t).group(0)))
            elif re.fullmatch(r'letpromise=crate::client::requests::read_(bits|registers)::Promise::new\(callback\)', t):
                steps.append('MakePromise')
            elif re.fullmatch(r'self\.send\(crate::client::channel::wrap\(param,wrap_req\(Read(Bits|Registers)::new\(range,promise\)\),?\),?\)', t):
                steps.append('TrySend')
            else:
                steps.append('OtherChannelStep ' + coq_str(stmt))
        crow.append(f'  ({coq_str(meth)}, [' + '; '.join(steps) + '])')
    for meth in ['write_single_coil', 'write_single_register', 'write_multiple_registers', 'write_multiple_coils']:
        body = fn_body_of(r_ffichan, r'pub\s+fn\s+' + meth + r'<C>\s*\(', 'ffi_channel.rs ' + meth)
        t = ''.join(body.split())
        if re.fullmatch(r'self\.send\(crate::client::channel::wrap\(param,RequestDetails::\w+\(\w+::new\(value,Promise::new\(callback\),?\),?\),?\),?\)', t):
            steps = ['MakePromise', 'TrySend']
        else:
            steps = ['OtherChannelStep ' + coq_str(body)]
        crow.append(f'  ({coq_str(meth)}, [' + '; '.join(steps) + '])')
    for pub, priv in [('read_coils', 'read_bits'), ('read_discrete_inputs', 'read_bits'), ('read_holding_registers', 'read_registers'), ('read_input_registers', 'read_registers')]:
        body = ''.join(fn_body_of(r_ffichan, r'pub\s+fn\s+' + pub + r'<C>\s*\(', 'ffi_channel.rs ' + pub).split())
        if not re.fullmatch(r'self\.' + priv + r'\(param,range,callback,RequestDetails::\w+\)', body):
            raise ParseError(f'ffi_channel.rs {pub}: does not delegate to {priv}')
    # the rodbus promises: what they complete with when dropped
    drops = []
    for f, nm in [('rodbus/src/client/message.rs', 'write'), ('rodbus/src/client/requests/read_bits.rs', 'read_bits'), ('rodbus/src/client/requests/read_registers.rs', 'read_registers')]:
        src = R(f)
        b = ''.join(rp.find_body(rp.find_body(src, r'impl(?:<T>)?\s+Drop\s+for\s+Promise(?:<T>)?\s*(?:where[^{]*)?\{'), r'fn\s+drop\s*\(\s*&mut\s+self\s*\)\s*\{').split())
        mo = re.fullmatch(r'self\.failure\(RequestError::(\w+)\);', b)
        drops.append(f'({coq_str(nm)}, ' + (f'Some {en.ctor("r_request_error", mo.group(1))}' if mo else 'None') + ')')
    funcs += '(* rodbus promises (client/message.rs, requests/read_bits.rs, requests/read_registers.rs): impl Drop = self.failure(<error>) *)\n'
    funcs += 'Definition rodbus_promise_drop : list (string * option rust_request_error) := [' + '; '.join(drops) + '].\n'
    funcs += 'Definition channel_methods : list (string * list channel_step) := [\n' + ';\n'.join(crow) + '\n].\n'
    funcs += '(* FfiChannel::read_coils/read_discrete_inputs delegate to read_bits, read_holding/input_registers to read_registers *)\n'
    funcs += 'Definition channel_method_of (request : string) : string :=\n  if orb (String.eqb request "read_coils") (String.eqb request "read_discrete_inputs") then "read_bits"\n'
    funcs += '  else if orb (String.eqb request "read_holding_registers") (String.eqb request "read_input_registers") then "read_registers" else request.\n\n'

    # ------------------------------------------------------------------ plain data crossing the boundary: which source field feeds which target field
    def accessor(e, var):
        """`x.index` / `value.timeout()` / `UnitId::new(value.unit_id)` -> the source field name, else the raw text"""
        t = ''.join(e.split())
        m = re.fullmatch(r'(?:UnitId::new\()?' + var + r'\.(\w+)(?:\(\))?\)?', t)
        return m.group(1) if m else t
    fw = []
    r_types = R('rodbus/src/types.rs')
    r_retry = R('rodbus/src/retry.rs')
    m = re.search(r'pub\s+fn\s+new\s*\(\s*(\w+)\s*:\s*u16\s*,\s*(\w+)\s*:\s*T\s*\)\s*->\s*Self\s*\{\s*Indexed\s*\{\s*(\w+)\s*,\s*(\w+)\s*\}', r_types)
    if not m or (m.group(1), m.group(2)) != (m.group(3), m.group(4)):
        raise ParseError('types.rs: Indexed::new(index, value) -> Indexed { index, value } not found')
    idx_params = [m.group(1), m.group(2)]
    for ffi_ty, rust_ty in [('BitValue', 'Indexed<bool>'), ('RegisterValue', 'Indexed<u16>')]:
        b = rp.find_body(rp.find_body(conv, r'impl\s+std::convert::From<ffi::' + ffi_ty + r'>\s+for\s+rodbus::' + re.escape(rust_ty) + r'\s*\{'), r'fn\s+from\s*\(\s*(\w+)\s*:[^)]*\)\s*->\s*Self\s*\{')
        mm = re.fullmatch(r'rodbus::Indexed::new\((.*)\)', ''.join(b.split()))
        if not mm:
            raise ParseError(f'conversions.rs: From<ffi::{ffi_ty}> is not rodbus::Indexed::new(..)')
        args = rp.split_top(mm.group(1))
        if len(args) != 2:
            raise ParseError(f'conversions.rs: From<ffi::{ffi_ty}>: Indexed::new with {len(args)} arguments')
        for pn, a in zip(idx_params, args):
            fw.append((rust_ty, pn, accessor(a, 'x')))
    b = rp.find_body(rp.find_body(conv, r'impl\s+From<AddressRange>\s+for\s+ffi::AddressRange\s*\{'), r'fn\s+from\s*\(\s*x\s*:[^)]*\)\s*->\s*Self\s*\{')
    mm = re.fullmatch(r'ffi::AddressRange\{(.*?),?\}', ''.join(b.split()))
    if not mm:
        raise ParseError('conversions.rs: From<AddressRange> for ffi::AddressRange is not a struct literal')
    for item in rp.split_top(mm.group(1)):
        f, e = item.split(':', 1)
        fw.append(('ffi::AddressRange', f, accessor(e, 'x')))
    b = rp.find_body(rp.find_body(fclient, r'impl\s+From<ffi::RequestParam>\s+for\s+RequestParam\s*\{'), r'fn\s+from\s*\(\s*value\s*:[^)]*\)\s*->\s*Self\s*\{')
    mm = re.fullmatch(r'Self\{(.*?),?\}', ''.join(b.split()))
    if not mm:
        raise ParseError('client.rs: From<ffi::RequestParam> is not a struct literal')
    for item in rp.split_top(mm.group(1)):
        f, e = item.split(':', 1)
        fw.append(('RequestParam', f, accessor(e, 'value')))
    m = re.search(r'pub\s+fn\s+doubling_retry_strategy\s*\(\s*(\w+)\s*:\s*Duration\s*,\s*(\w+)\s*:\s*Duration\s*\)', r_retry)
    if not m:
        raise ParseError('retry.rs: doubling_retry_strategy(min, max) not found')
    b = rp.find_body(rp.find_body(conv, r'impl\s+From<ffi::RetryStrategy>\s+for\s+Box<dyn RetryStrategy>\s*\{'), r'fn\s+from\s*\(\s*from\s*:[^)]*\)\s*->\s*Self\s*\{')
    mm = re.fullmatch(r'rodbus::doubling_retry_strategy\((.*)\)', ''.join(b.split()))
    if not mm:
        raise ParseError('conversions.rs: From<ffi::RetryStrategy> is not rodbus::doubling_retry_strategy(..)')
    args = rp.split_top(mm.group(1))
    if len(args) != 2:
        raise ParseError('conversions.rs: doubling_retry_strategy call does not have two arguments')
    for pn, a in zip([m.group(1), m.group(2)], args):
        fw.append(('doubling_retry_strategy', pn, accessor(a, 'from')))
    funcs += '(* plain data: (target struct / constructor, its field / parameter, the source field that feeds it) *)\n'
    funcs += 'Definition field_forwarding : list (string * string * string) := [\n' + ';\n'.join(f'  ({coq_str(a)}, {coq_str(b_)}, {coq_str(c)})' for a, b_, c in fw) + '\n].\n\n'

    # ------------------------------------------------------------------ AuthorizationHandlerWrapper: what the C authorization callbacks are shown
    m = re.search(r'struct\s+AuthorizationHandlerWrapper\s*\{', fserver)
    if not m:
        raise ParseError('server.rs: struct AuthorizationHandlerWrapper not found')
    sbody = fserver[m.end():matching(fserver, m.end() - 1, '{', '}') - 1]
    wfields = [x.split(':', 1)[0].strip() for x in rp.split_top(sbody) if x.strip()]
    aimpl = rp.find_body(fserver, r'impl\s+AuthorizationHandler\s+for\s+AuthorizationHandlerWrapper\s*\{')
    funcs += '(* server.rs: struct AuthorizationHandlerWrapper (ONE object per server, shared by all its sessions) and its eight methods:\n'
    funcs += '   where the role string handed to the C callback comes from, which callback is called with which arguments, and the answer\n'
    funcs += '   when the callback pointer is not set *)\n'
    funcs += 'Definition authz_wrapper_fields : list string := [' + '; '.join(coq_str(x) for x in wfields) + '].\n'
    funcs += 'Inductive role_source := RoleOfThisCall   (* a C string made from the `role: &str` parameter of this very call *)\n| OtherRoleSource (e : string).\n'
    funcs += 'Record authz_wrapper := { aw_method : string; aw_callback : string; aw_role : role_source; aw_unit : string; aw_arg : string; aw_result_into : bool; aw_unset_denies : bool }.\n'
    rows = []
    for meth in ['read_coils', 'read_discrete_inputs', 'read_holding_registers', 'read_input_registers',
                 'write_single_coil', 'write_single_register', 'write_multiple_coils', 'write_multiple_registers']:
        mm = re.search(r'fn\s+' + meth + r'\s*\(', aimpl)
        if not mm:
            raise ParseError(f'server.rs AuthorizationHandlerWrapper: fn {meth} not found')
        pclose = matching(aimpl, mm.end() - 1, '(', ')')
        params = [x.split(':', 1)[0].strip() for x in rp.split_top(aimpl[mm.end():pclose - 1]) if x.strip()]
        bopen = aimpl.find('{', pclose)
        body = aimpl[bopen + 1:matching(aimpl, bopen, '{', '}') - 1]
        stmts = [''.join(x.split()) for x in rp.split_top(body, ';') if x.strip()]
        role_src = 'OtherRoleSource "no `let role = ..` statement"'
        call = None
        for st in stmts:
            if st.startswith('letrole='):
                rhs = st[len('letrole='):]
                role_src = 'RoleOfThisCall' if rhs == 'unsafe{&std::ffi::CString::from_vec_unchecked(role.into())}' and 'role' in params else 'OtherRoleSource ' + coq_str(rhs)
            else:
                call = st
        mc = re.fullmatch(r'self\.inner\.(\w+)\(([^()]*(?:\([^()]*\))?[^()]*)\)\.map\(\|result\|result\.into\(\)\)\.unwrap_or\(Authorization::(\w+)\)', call or '')
        if not mc:
            raise ParseError(f'server.rs AuthorizationHandlerWrapper::{meth}: tail expression not understood: {call}')
        cargs = rp.split_top(mc.group(2))
        if len(cargs) != 3 or cargs[2] != 'role':
            role_src = 'OtherRoleSource ' + coq_str('third callback argument is ' + (cargs[2] if len(cargs) > 2 else '?'))
        rows.append(f'  {{| aw_method := {coq_str(meth)}; aw_callback := {coq_str(mc.group(1))}; aw_role := {role_src}; aw_unit := {coq_str(cargs[0])}; '
                    f'aw_arg := {coq_str(cargs[1] if len(cargs) > 1 else "?")}; aw_result_into := true; aw_unset_denies := {"true" if mc.group(3) == "Deny" else "false"} |}}')
    funcs += 'Definition authz_wrappers : list authz_wrapper := [\n' + ';\n'.join(rows) + '\n].\n\n'

    # ------------------------------------------------------------------ constructors: which C argument feeds which parameter of the Rust constructor
    def params_of(src, fname, where):
        m = re.search(r'pub\s+(?:async\s+)?fn\s+' + fname + r'\s*(<[^>(]*>)?\s*\(', src)
        if not m:
            raise ParseError(f'{where}: fn {fname} not found')
        close = matching(src, m.end() - 1, '(', ')')
        return [x.split(':', 1)[0].strip() for x in rp.split_top(src[m.end():close - 1]) if x.strip()]

    def body_of(src, header_re, where):
        m = re.search(header_re, src)
        if not m:
            raise ParseError(where + ': not found')
        pclose = matching(src, m.end() - 1, '(', ')')
        bopen = src.find('{', pclose)
        return src[bopen + 1:matching(src, bopen, '{', '}') - 1]
    r_client_mod = R('rodbus/src/client/mod.rs')
    r_server_mod = R('rodbus/src/server/mod.rs')
    plumbing = []
    ctor_fns = [(fclient, 'client.rs', r'pub\(crate\)\s+unsafe\s+fn\s+client_channel_create_tcp\s*\(', 'client_channel_create_tcp', None),
                (fclient, 'client.rs', r'#\[cfg\(feature\s*=\s*"serial"\)\]\s*pub\(crate\)\s+unsafe\s+fn\s+client_channel_create_rtu\s*\(', 'client_channel_create_rtu', None),
                (fclient, 'client.rs', r'#\[cfg\(feature\s*=\s*"enable-tls"\)\]\s*pub\(crate\)\s+unsafe\s+fn\s+client_channel_create_tls\s*\(', 'client_channel_create_tls', None),
                (fserver, 'server.rs', r'pub\(crate\)\s+unsafe\s+fn\s+server_create_tcp\s*\(', 'server_create_tcp', None),
                (fserver, 'server.rs', r'#\[cfg\(feature\s*=\s*"serial"\)\]\s*pub\(crate\)\s+unsafe\s+fn\s+server_create_rtu\s*\(', 'server_create_rtu', None),
                (fserver, 'server.rs', r'#\[cfg\(feature\s*=\s*"enable-tls"\)\]\s*#\[allow\(clippy::too_many_arguments\)\]\s*pub\(crate\)\s+unsafe\s+fn\s+server_create_tls_impl\s*\(', 'server_create_tls_impl', None)]
    for src_text, where, hdr, fname, _ in ctor_fns:
        body = body_of(src_text, hdr, f'{where} {fname}')
        lets = {}
        for lm in re.finditer(r'\blet\s+(\w+)\s*(?::[^=;]+)?=\s*([^;]+);', body):
            rhs = ''.join(lm.group(2).split())
            if len(rhs) <= 48:
                lets[lm.group(1)] = rhs
        found = 0
        for cm in re.finditer(r'rodbus::(client|server)::(spawn_\w+)\s*\(', body):
            close = matching(body, cm.end() - 1, '(', ')')
            args = [''.join(a.split()) for a in rp.split_top(body[cm.end():close - 1])]
            names = params_of(r_client_mod if cm.group(1) == 'client' else r_server_mod, cm.group(2), f'rodbus {cm.group(1)}/mod.rs')
            if len(names) != len(args):
                raise ParseError(f'{where} {fname}: {cm.group(2)} called with {len(args)} arguments, declared with {len(names)}')
            for pn, a in zip(names, args):
                # a plain local bound by a short `let` is shown with its definition
                shown = lets.get(a, a) if re.fullmatch(r'\w+', a) and lets.get(a, a) != a + '.as_ref().ok_or(ffi::ParamError::NullParameter)?' else a
                plumbing.append((fname, cm.group(2), pn, shown))
            found += 1
        if found == 0:
            raise ParseError(f'{where} {fname}: no rodbus::client/server::spawn_* call')
    funcs += '(* the C-ABI constructors: (C function, Rust constructor it calls, parameter of that constructor, the argument expression\n   with whitespace removed; a local bound by a short `let` is replaced by its definition) *)\n'
    funcs += 'Definition ctor_plumbing : list (string * string * string * string) := [\n' + ';\n'.join(
        f'  ({coq_str(a)}, {coq_str(b)}, {coq_str(c)}, "{d.replace(chr(34), chr(34) * 2)}")' for a, b, c, d in plumbing) + '\n].\n\n'

    # ------------------------------------------------------------------ TLS configuration conversions (client.rs TryFrom<ffi::TlsClientConfig>, server.rs server_create_tls_impl)
    def nows(x):
        return ''.join(x.split())

    def statements(body):
        return [st for st in rp.split_top(body, ';') if st.strip()]

    def opt_rule_of(rhs):
        """classify `match <s> { "" => None, x => Some(x) }`"""
        t = nows(rhs)
        mo = re.fullmatch(r'match(.+?)\{""=>None,(\w+)=>Some\(\2\),?\}', t)
        return ('NoneIfEmpty ' + coq_str(mo.group(1))) if mo else ('OtherRule ' + coq_str(t))

    def and_split(cond):
        parts, depth, cur, k = [], 0, '', 0
        while k < len(cond):
            ch = cond[k]
            depth += ch in '(['
            depth -= ch in ')]'
            if depth == 0 and cond.startswith('&&', k):
                parts.append(cur)
                cur, k = '', k + 2
                continue
            cur += ch
            k += 1
        parts.append(cur)
        return [nows(x) for x in parts]

    mt = re.search(r'impl\s+TryFrom<ffi::TlsClientConfig>\s+for\s+rodbus::client::TlsClientConfig\s*\{', fclient)
    if not mt:
        raise ParseError('client.rs: impl TryFrom<ffi::TlsClientConfig> not found')
    timpl = fclient[mt.end():matching(fclient, mt.end() - 1, '{', '}') - 1]
    tbody = body_of(timpl, r'fn\s+try_from\s*\(', 'client.rs TryFrom<ffi::TlsClientConfig>::try_from')
    tls_lets, pw_rule = [], None
    for st in statements(tbody):
        ml = re.match(r'\s*let\s+(\w+)\s*=\s*(.+)$', st, re.S)
        if not ml or ml.group(1) == 'config':
            continue
        if ml.group(1) == 'optional_password':
            pw_rule = opt_rule_of(ml.group(2))
        else:
            tls_lets.append((ml.group(1), nows(ml.group(2))))
    if pw_rule is None:
        raise ParseError('client.rs TryFrom<ffi::TlsClientConfig>: no `let optional_password`')
    mm = re.search(r'match\s+value\s*\.\s*certificate_mode\s*\(\s*\)\s*\{', tbody)
    if not mm:
        raise ParseError('client.rs TryFrom<ffi::TlsClientConfig>: no `match value.certificate_mode()`')
    marms = rp.match_arms(tbody[mm.end():matching(tbody, mm.end() - 1, '{', '}') - 1])
    ctor_rows, name_rule = [], None
    for pat, expr in marms:
        mode = re.fullmatch(r'ffi::CertificateMode::(\w+)', nows(pat))
        if not mode:
            raise ParseError(f'client.rs TryFrom<ffi::TlsClientConfig>: arm {pat}')
        inner = expr[1:-1] if expr.startswith('{') else expr
        mc = re.search(r'rodbus::client::TlsClientConfig::(\w+)\s*\(', inner)
        if not mc:
            raise ParseError(f'client.rs TryFrom<ffi::TlsClientConfig>: arm {mode.group(1)} calls no TlsClientConfig constructor')
        cargs = [nows(a) for a in rp.split_top(inner[mc.end():matching(inner, mc.end() - 1, '(', ')') - 1]) if a.strip()]
        ctor_rows.append((mode.group(1), mc.group(1), cargs))
        if 'expected_subject_name' in cargs:
            rhs = [nows(x.group(1)) for x in re.finditer(r'let\s+expected_subject_name\s*=\s*(.+?);', inner[:mc.start()], re.S)]
            mi = re.fullmatch(r'if(.+)\{None\}else\{Some\(expected_subject_name\.to_string\(\)\)\}', rhs[1]) if len(rhs) == 2 else None
            if len(rhs) == 2 and rhs[0] == 'value.dns_name().to_str()?' and mi:
                # the condition keeps its spaces until split
                raw = re.search(r'let\s+expected_subject_name\s*=\s*if\s+(.+?)\s*\{\s*None', inner, re.S).group(1)
                name_rule = 'NoneIf ' + coq_str(rhs[0]) + ' [' + '; '.join(coq_str(c) for c in and_split(raw)) + ']'
            else:
                name_rule = 'OtherRule ' + coq_str(';'.join(rhs))
    if name_rule is None:
        raise ParseError('client.rs TryFrom<ffi::TlsClientConfig>: no constructor takes `expected_subject_name`')
    funcs += ('(* client.rs impl TryFrom<ffi::TlsClientConfig> (rodbus_client_channel_create_tls), whitespace removed.\n'
              '   opt_rule: how an Option argument of the Rust constructor is derived from a C string:\n'
              '     NoneIfEmpty src          match src { "" => None, x => Some(x) }\n'
              '     NoneIf src conjuncts     let x = src; if c1 && c2 && .. { None } else { Some(x.to_string()) }\n'
              '     OtherRule text           anything else *)\n')
    funcs += 'Inductive opt_rule := NoneIfEmpty (src : string) | NoneIf (src : string) (conjuncts : list string) | OtherRule (e : string).\n'
    funcs += f'Definition tls_client_password : opt_rule := {pw_rule}.\n'
    funcs += f'Definition tls_client_name : opt_rule := {name_rule}.\n'
    funcs += '(* the other locals: (name, defining expression) *)\n'
    funcs += 'Definition tls_client_lets : list (string * string) := [' + '; '.join(f'({coq_str(a)}, {coq_str(b)})' for a, b in tls_lets) + '].\n'
    funcs += '(* per certificate mode: the TlsClientConfig constructor called and its arguments *)\n'
    funcs += 'Definition tls_client_ctors : list (string * string * list string) := [\n' + ';\n'.join(
        f'  ({coq_str(a)}, {coq_str(b)}, [' + '; '.join(coq_str(x) for x in c) + '])' for a, b, c in ctor_rows) + '\n].\n'
    sbody = body_of(fserver, r'#\[cfg\(feature\s*=\s*"enable-tls"\)\]\s*#\[allow\(clippy::too_many_arguments\)\]\s*pub\(crate\)\s+unsafe\s+fn\s+server_create_tls_impl\s*\(', 'server.rs server_create_tls_impl')
    s_lets, s_pw = [], None
    for st in statements(sbody):
        ml = re.match(r'\s*let\s+(\w+)\s*=\s*(.+)$', st, re.S)
        if ml and ml.group(1) == 'optional_password':
            s_pw = opt_rule_of(ml.group(2))
        elif ml and ml.group(1) == 'password':
            s_lets.append(('password', nows(ml.group(2))))
    msc = re.search(r'TlsServerConfig::new\s*\(', sbody)
    if s_pw is None or not msc:
        raise ParseError('server.rs server_create_tls_impl: no `let optional_password` or no TlsServerConfig::new')
    sargs = [nows(a) for a in rp.split_top(sbody[msc.end():matching(sbody, msc.end() - 1, '(', ')') - 1]) if a.strip()]
    funcs += '(* server.rs server_create_tls_impl (rodbus_server_create_tls / _with_authz): password rule, its local, the arguments of TlsServerConfig::new *)\n'
    funcs += f'Definition tls_server_password : opt_rule := {s_pw}.\n'
    funcs += 'Definition tls_server_lets : list (string * string) := [' + '; '.join(f'({coq_str(a)}, {coq_str(b)})' for a, b in s_lets) + '].\n'
    funcs += 'Definition tls_server_ctor_args : list string := [' + '; '.join(coq_str(x) for x in sargs) + '].\n\n'

    # ------------------------------------------------------------------ the C-ABI address filter: order of the parse attempts of create, arms of add
    pbody = body_of(fserver, r'\bfn\s+parse_address_filter\s*\(', 'server.rs parse_address_filter')
    attempts = []
    for am in re.finditer(r'parse::<\s*(\w+)\s*>\s*\(\s*\)|let\s+\w+\s*:\s*(\w+)\s*=\s*s\s*\.\s*parse\s*\(\s*\)', pbody):
        attempts.append(am.group(1) or am.group(2))
    if not attempts:
        raise ParseError('server.rs parse_address_filter: no parse attempt found')
    if not re.search(r'AddressFilter::AnyOf\s*\(\s*set\s*\)', pbody) or not re.search(r'AddressFilter::WildcardIpv4\s*\(\s*wc\s*\)', pbody):
        raise ParseError('server.rs parse_address_filter: AnyOf(set) / WildcardIpv4(wc) results not found')
    abody = body_of(fserver, r'pub\s+unsafe\s+fn\s+address_filter_add\s*\(', 'server.rs address_filter_add')
    mm2 = re.search(r'match\s+address_filter\s*\{', abody)
    if not mm2:
        raise ParseError('server.rs address_filter_add: no `match address_filter`')
    add_rows = []
    for pat, expr in rp.match_arms(abody[mm2.end():matching(abody, mm2.end() - 1, '{', '}') - 1]):
        var = re.match(r'AddressFilter::(\w+)', nows(pat))
        if not var:
            raise ParseError(f'server.rs address_filter_add: arm {pat}')
        e = nows(expr)
        if re.fullmatch(r'\{?set\.insert\(address\);?\}?', e):
            act = 'Insert'
        elif re.fullmatch(r'\{?returnErr\(ffi::ParamError::InvalidIpAddress\);?\}?', e):
            act = 'Reject'
        else:
            act = e
        add_rows.append((var.group(1), act))
    funcs += ('(* server.rs parse_address_filter (rodbus_address_filter_create): the parsers tried on the string, in source order (the first that\n'
              '   accepts decides: IpAddr -> AnyOf{address}, WildcardIPv4 -> WildcardIpv4(pattern)); address_filter_add: per variant of the filter,\n'
              '   Insert = set.insert(address), Reject = return Err(InvalidIpAddress), anything else verbatim *)\n')
    funcs += 'Definition filter_parse_order : list string := [' + '; '.join(coq_str(a) for a in attempts) + '].\n'
    funcs += 'Definition filter_add_arms : list (string * string) := [' + '; '.join(f'({coq_str(a)}, {coq_str(b)})' for a, b in add_rows) + '].\n\n'

    # ------------------------------------------------------------------ listener adapters (client.rs): every update is forwarded
    lrows = []
    for lname, ltype in (('ClientStateListener', r'ClientState'), ('PortStateListener', r'rodbus::client::PortState')):
        ml = re.search(r'impl\s+Listener<\s*' + ltype + r'\s*>\s+for\s+' + lname + r'\s*\{', fclient)
        if not ml:
            raise ParseError(f'client.rs: impl Listener<..> for {lname} not found')
        lblock = fclient[ml.end():matching(fclient, ml.end() - 1, '{', '}') - 1]
        ub = body_of(lblock, r'fn\s+update\s*\(', f'client.rs {lname}::update')
        lrows.append((lname, [nows(x) for x in rp.split_top(ub, ';') if x.strip()]))
        ms = re.search(r'struct\s+' + lname + r'\s*\{', fclient)
        sfields = [nows(x).split(':')[0] for x in rp.split_top(fclient[ms.end():matching(fclient, ms.end() - 1, '{', '}') - 1]) if x.strip()] if ms else ['?']
        lrows[-1] = (lname, sfields, lrows[-1][1])
    funcs += '(* client.rs listener adapters handed to the Rust API: (adapter, its fields, the statements of Listener::update, whitespace removed) *)\n'
    funcs += 'Definition listener_adapters : list (string * list string * list string) := [\n' + ';\n'.join(
        f'  ({coq_str(a)}, [' + '; '.join(coq_str(x) for x in f) + '], [' + '; '.join(coq_str(x) for x in b) + '])' for a, f, b in lrows) + '\n].\n\n'

    # ------------------------------------------------------------------ FfiChannel::enable / disable: nothing but the send
    srows = []
    mfi = re.search(r'\bimpl\s+FfiChannel\s*\{', r_ffichan)
    if not mfi:
        raise ParseError('ffi_channel.rs: impl FfiChannel not found')
    fblock = r_ffichan[mfi.end():matching(r_ffichan, mfi.end() - 1, '{', '}') - 1]
    for fname in ('enable', 'disable'):
        fb = body_of(fblock, r'pub\s+fn\s+' + fname + r'\s*\(', f'ffi_channel.rs FfiChannel::{fname}')
        srows.append((fname, [nows(x) for x in rp.split_top(fb, ';') if x.strip()]))
    msf = re.search(r'pub\s+struct\s+FfiChannel\s*\{', r_ffichan)
    ffields = [nows(x).split(':')[0] for x in rp.split_top(r_ffichan[msf.end():matching(r_ffichan, msf.end() - 1, '{', '}') - 1]) if x.strip()] if msf else ['?']
    funcs += '(* ffi_channel.rs: the fields of FfiChannel and the statements of FfiChannel::enable / disable (whitespace removed) *)\n'
    funcs += 'Definition ffi_channel_fields : list string := [' + '; '.join(coq_str(x) for x in ffields) + '].\n'
    funcs += 'Definition ffi_channel_settings : list (string * list string) := [' + '; '.join(
        f'({coq_str(a)}, [' + '; '.join(coq_str(x) for x in b) + '])' for a, b in srows) + '].\n\n'

    out = 'Local Open Scope string_scope.\n\n' + en.render() + funcs
    out += '(* every conversion table: (Coq function, source enum, target enum) *)\n'
    out += 'Definition conversion_tables : list string := [' + '; '.join(coq_str(t[0]) for t in tables) + '].\n'
    return out


def arms_of_allow_default(body):
    return rp.match_arms(rp.first_match_body(body))
