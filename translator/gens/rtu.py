"""Generator for Gen/RtuLengths.v: serial/frame.rs::RtuParser::length_mode."""
import re
import rustparse as rp
from rustparse import ParseError
from registry import generator


def _mode(expr):
    m = re.fullmatch(r'LengthMode::(Fixed|Offset)\(\s*([0-9_]+)\s*\)', expr.strip())
    if m:
        return f'{m.group(1)} {int(m.group(2).replace("_", ""))}'
    if expr.strip() == 'LengthMode::Unknown':
        return 'Unknown'
    raise ParseError('length_mode: unsupported result expression: ' + expr.strip()[:80])


@generator('RtuLengths.v', 'rodbus/src/serial/frame.rs', 'rodbus/src/common/function.rs')
def gen_rtu_lengths(repo):
    src = rp.read(f'{repo}/rodbus/src/serial/frame.rs')
    body = rp.find_body(src, r'fn\s+length_mode\s*\(\s*&self\s*,\s*function_code\s*:\s*u8\s*\)\s*->\s*LengthMode\s*\{')
    flat = ' '.join(body.split())
    # 1. the exception rule: if matches!(self.parser_type, ParserType::X) && function_code & MASK != 0 { return MODE; }
    m = re.match(r'if matches!\(\s*self\.parser_type\s*,\s*ParserType::(Request|Response)\s*\) && function_code & (0x[0-9A-Fa-f]+|[0-9]+) != 0 \{ return (LengthMode::[A-Za-z]+(?:\([0-9_ ]*\))?); \}\s*', flat)
    if not m:
        raise ParseError('length_mode: exception rule not recognised')
    ex_ptype, ex_mask, ex_mode = m.group(1), int(m.group(2), 0), _mode(m.group(3))
    rest = flat[m.end():]
    # 2. function code lookup: let function_code = match FunctionCode::get(function_code) { Some(code) => code, None => return MODE, };
    m = re.match(r'let function_code = match FunctionCode::get\(\s*function_code\s*\) \{ Some\(code\) => code, None => return (LengthMode::[A-Za-z]+(?:\([0-9_ ]*\))?),? \};\s*', rest)
    if not m:
        raise ParseError('length_mode: FunctionCode::get lookup not recognised')
    unknown_mode = _mode(m.group(1))
    rest = rest[m.end():]
    # 3. the table: match self.parser_type { ParserType::Request => match function_code {..}, ParserType::Response => match function_code {..}, }
    m = re.match(r'match self\.parser_type\s*', rest)
    if not m:
        raise ParseError('length_mode: table is not `match self.parser_type`')
    outer, endpos = rp.block_after(rest, 0)
    if rest[endpos:].strip():
        raise ParseError('length_mode: trailing code after the table: ' + rest[endpos:].strip()[:60])
    # the variants of FunctionCode (every one must be covered, for both parser types)
    fsrc = rp.read(f'{repo}/rodbus/src/common/function.rs')
    enum_body = rp.find_body(fsrc, r'pub\(crate\)\s+enum\s+FunctionCode\s*\{')
    variants = [re.match(r'([A-Za-z]+)', v).group(1) for v in rp.split_top(enum_body) if v]
    table = {}
    for ptype, inner in rp.match_arms(outer):
        pm = re.fullmatch(r'ParserType::(Request|Response)', ptype)
        if not pm:
            raise ParseError('length_mode: unknown parser type arm ' + ptype)
        im = re.match(r'match function_code\s*', inner)
        if not im:
            raise ParseError('length_mode: inner arm is not `match function_code`')
        arms = {}
        for pat, expr in rp.match_arms(rp.block_after(inner, 0)[0]):
            fm = re.fullmatch(r'FunctionCode::([A-Za-z]+)', pat)
            if not fm:
                raise ParseError('length_mode: unsupported pattern ' + pat)
            if fm.group(1) in arms:
                raise ParseError('length_mode: duplicate arm ' + pat)
            arms[fm.group(1)] = _mode(expr)
        if sorted(arms) != sorted(variants):
            raise ParseError(f'length_mode: arms for {pm.group(1)} do not cover exactly the FunctionCode variants')
        table[pm.group(1)] = arms
    if sorted(table) != ['Request', 'Response']:
        raise ParseError('length_mode: table does not have exactly the Request and Response arms')
    out = 'From Rodbus Require Import Gen.Consts.\n\n'
    out += '(* serial/frame.rs: enum ParserType, enum LengthMode, RtuParser::length_mode *)\n'
    out += 'Inductive ptype := Request | Response.\n'
    out += 'Inductive length_mode_t := Fixed (n : nat) | Offset (n : nat) | Unknown.\n'
    out += 'Definition ptype_eqb (a b : ptype) : bool := match a, b with Request, Request | Response, Response => true | _, _ => false end.\n\n'
    out += f'(* `if matches!(self.parser_type, ParserType::{ex_ptype}) && function_code & {ex_mask:#x} != 0 {{ return ..; }}` *)\n'
    out += f'Definition exception_rule_ptype : ptype := {ex_ptype}.\n'
    out += f'Definition exception_rule_mask : N := {ex_mask}.\n'
    out += f'Definition exception_rule_mode : length_mode_t := {ex_mode}.\n'
    out += f'Definition unknown_function_mode : length_mode_t := {unknown_mode}.\n\n'
    out += 'Definition length_mode_table (p : ptype) (f : fcode) : length_mode_t :=\n  match p, f with\n'
    for p in ['Request', 'Response']:
        for v in variants:
            out += f'  | {p}, {v} => {table[p][v]}\n'
    out += '  end.\n\n'
    out += ('Definition length_mode (p : ptype) (function_code : N) : length_mode_t :=\n'
            '  if andb (ptype_eqb p exception_rule_ptype) (negb (N.eqb (N.land function_code exception_rule_mask) 0))\n'
            '  then exception_rule_mode\n'
            '  else match fcode_get function_code with\n'
            '       | None => unknown_function_mode\n'
            '       | Some f => length_mode_table p f\n'
            '       end.\n')
    return out
