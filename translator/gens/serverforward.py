"""Generator for Gen/ServerForward.v (C15): where the TCP/TLS server task can wait.

tcp/server.rs ServerTask: `run` is one `select!` over the command channel, the session-close channel and
`listener.accept()`; its arms call `apply_command(..).await` and `handle(..).await`. Generated: how `apply_command`
hands a command to the sessions (`sender.try_send(command)` = never waits, the command is dropped for a session whose
queue is full; or `sender.send(command).await` = waits for room in that session's queue), how many `.await` points the
bodies of `apply_command` and `handle` (outside the spawned session block) contain, and the capacity of a session's
command queue. Anything not recognised raises ParseError.
"""
import re
import rustparse as rp
from rustparse import ParseError
from registry import generator


@generator('ServerForward.v', 'rodbus/src/tcp/server.rs')
def gen_server_forward(repo):
    src = rp.read(f'{repo}/rodbus/src/tcp/server.rs')
    ac = rp.find_body(src, r'async\s+fn\s+apply_command\s*\(')
    m = re.search(r'for\s+sender\s+in\s+self\s*\.\s*tracker\s*\.\s*sessions\s*\.\s*values_mut\s*\(\s*\)', ac)
    if not m:
        raise ParseError('tcp/server.rs apply_command: no loop over self.tracker.sessions.values_mut()')
    body = ''.join(rp.block_after(ac, m.end())[0].split())
    if body in ('let_=sender.try_send(command);', 'sender.try_send(command).ok();'):
        fwd = 'ForwardTrySend'
    elif body in ('let_=sender.send(command).await;', 'sender.send(command).await.ok();'):
        fwd = 'ForwardSendAwait'
    else:
        raise ParseError('tcp/server.rs apply_command: forwarding statement not understood: ' + body[:80])
    ac_awaits = len(re.findall(r'\.\s*await\b', ac))
    if (fwd == 'ForwardTrySend') != (ac_awaits == 0):
        raise ParseError(f'tcp/server.rs apply_command: {ac_awaits} await points with {fwd}')
    h = rp.find_body(src, r'async\s+fn\s+handle\s*\(\s*&mut\s+self\s*,\s*socket\s*:\s*tokio::net::TcpStream\s*,\s*addr\s*:\s*SocketAddr\s*\)\s*\{')
    sm = re.search(r'let\s+session\s*=\s*async\s+move\b', h)
    if not sm:
        raise ParseError('tcp/server.rs handle: no `let session = async move { .. }` block')
    sess_block, end = rp.block_after(h, sm.end())
    # the close notice of the session task: the LAST thing the spawned block does with notify_close
    flat = ''.join(sess_block.split())
    if flat.count('notify_close.') != 1:
        raise ParseError('tcp/server.rs handle: expected exactly one use of notify_close in the session block')
    if 'let_=notify_close.send(SessionClose(id)).await;' in flat:
        notice = 'NoticeSendAwait'
    elif 'let_=notify_close.try_send(SessionClose(id));' in flat:
        notice = 'NoticeTrySend'
    else:
        raise ParseError('tcp/server.rs handle: close notice statement not understood')
    if flat.index('notify_close.') < flat.index('run_session('):
        raise ParseError('tcp/server.rs handle: the close notice is not sent after run_session')
    outside = h[:sm.start()] + h[end:]
    if not re.search(r'tokio::spawn\s*\(\s*session\s*\)', outside):
        raise ParseError('tcp/server.rs handle: the session is not spawned')
    h_awaits = len(re.findall(r'\.\s*await\b', outside))
    cm = re.search(r'let\s*\(\s*tx\s*,\s*rx\s*\)\s*=\s*tokio::sync::mpsc::channel\(\s*(\d+)\s*\)\s*;\s*let\s+id\s*=\s*self\s*\.\s*tracker\s*\.\s*add\s*\(\s*tx\s*\)', h)
    if not cm:
        raise ParseError('tcp/server.rs handle: session command channel / tracker.add(tx) not found')
    run = rp.find_body(src, r'pub\(crate\)\s+async\s+fn\s+run\s*\(\s*&mut\s+self\s*,\s*mut\s+commands')
    if not re.search(r'Some\(command\)\s*=>\s*self\s*\.\s*apply_command\s*\(\s*command\s*\)\s*\.\s*await', run) or not re.search(r'self\s*\.\s*handle\s*\(\s*socket\s*,\s*addr\s*\)\s*\.\s*await', run):
        raise ParseError('tcp/server.rs run: apply_command / handle calls not found')
    out = '(* tcp/server.rs ServerTask::apply_command: how a command is handed to every session *)\n'
    out += 'Inductive forwarding := ForwardSendAwait | ForwardTrySend.\n'
    out += f'Definition apply_command_forwarding : forwarding := {fwd}.\n'
    out += f'(* `.await` points in the body of apply_command, and of handle outside the spawned session block *)\n'
    out += f'Definition apply_command_awaits : nat := {ac_awaits}.\nDefinition handle_awaits : nat := {h_awaits}.\n'
    out += f'(* capacity of the command queue of a session (handle: mpsc::channel(n), its sender goes into the tracker) *)\n'
    out += f'Definition session_command_queue : nat := {int(cm.group(1))}.\n'
    out += '(* how an ending session tells the server task (handle, end of the spawned block): send(SessionClose(id)).await is\n'
    out += '   never lost; try_send is dropped when the server\'s queue is full *)\n'
    out += 'Inductive close_notice := NoticeSendAwait | NoticeTrySend.\n'
    out += f'Definition session_close_notice : close_notice := {notice}.\n'
    return out
