"""Generator for Gen/WritePath.v: how bytes leave the library.
 * common/phys.rs PhysLayer::read / PhysLayer::write: for EVERY transport arm the I/O method that is called and
   whether its result is what the function returns (write_all returned = all bytes or an error; a single `write`
   whose count is dropped = whatever the port did not take is lost);
 * server/task.rs write_reply: is the write future created ONCE and raced against the command channel, or
   re-created in a loop after every command; what each command does to the wait;
 * client/task.rs execute_request: the request write is awaited directly (nothing can drop it half way).
Anything that is not one of the recognised shapes raises ParseError."""
import re
import rustparse as rp
from rustparse import ParseError
from registry import generator

def statements(body):
    """split a block body into top-level statements: `...;` or a block statement `if .. { .. }` / `match .. { .. }`
    without semicolon; the trailing expression (no `;`) is the last element"""
    out, depth, cur = [], 0, ''
    i = 0
    while i < len(body):
        ch = body[i]
        if ch in '([{':
            depth += 1
        elif ch in ')]}':
            depth -= 1
        cur += ch
        if depth == 0:
            if ch == ';':
                out.append(cur.strip()[:-1].strip())
                cur = ''
            elif ch == '}' and re.match(r'\s*(if|match|loop)\b', cur):
                # a block statement ends here unless an `else` follows
                rest = body[i + 1:]
                if not re.match(r'\s*else\b', rest):
                    out.append(cur.strip())
                    cur = ''
        i += 1
    if cur.strip():
        out.append(cur.strip())
    return [' '.join(s.split()) for s in out if s.strip()]




VARIANTS = {'Tcp': 'LTcp', 'Serial': 'LSerial', 'Tls': 'LTls', 'Mock': 'LMock', 'Verif': 'LVerif'}


def _arms(match_body, where):
    res = []
    for pat, expr in rp.match_arms(match_body):
        pat = re.sub(r'#\[cfg\([^\]]*\)\]\s*', '', ' '.join(pat.split()))
        m = re.fullmatch(r'PhysLayerImpl::(\w+)\((.*)\)', pat)
        if not m or m.group(1) not in VARIANTS:
            raise ParseError(f'{where}: arm not recognised: {pat[:80]}')
        res.append((m.group(1), ' '.join(expr.split())))
    return res


def _write_call(variant, expr, where):
    e = expr
    if e.startswith('{') and e.endswith('}'):
        e = e[1:-1].strip()
    if e == 'x.write_all(data).await':
        return 'WriteAllReturned'
    stm = statements(e)
    pre = [
        r'if let Some\(last_activity\) = last_activity \{ tokio::time::sleep_until\(\*last_activity \+ \*inter_char_delay\)\.await; \}',
        r'\*last_activity = Some\(tokio::time::Instant::now\(\)\)',
    ]
    calls = []
    for st in stm:
        if any(re.fullmatch(p, st) for p in pre):
            continue
        calls.append(st)
    if calls == ['x.write_all(data).await']:
        return 'WriteAllReturned'
    if calls == ['x.write_all(data).await?', 'Ok(())']:
        return 'WriteAllReturned'
    if calls == ['x.write(data).await?', 'Ok(())'] or calls == ['let _ = x.write(data).await?', 'Ok(())']:
        return 'WriteOnceCountDropped'
    raise ParseError(f'{where}: {variant} arm: statements not recognised: {calls}')


@generator('WritePath.v', 'rodbus/src/common/phys.rs', 'rodbus/src/server/task.rs', 'rodbus/src/client/task.rs')
def gen_write_path(repo):
    psrc = rp.read(f'{repo}/rodbus/src/common/phys.rs')
    impl = rp.find_body(psrc, r'impl\s+PhysLayer\s*\{')
    # ---- read
    rbody = rp.find_body(impl, r'pub\(crate\)\s+async\s+fn\s+read\s*\([^)]*\)\s*->\s*Result<usize,\s*std::io::Error>\s*\{')
    m = re.search(r'let\s+length\s*=\s*match\s+&mut\s+self\.layer\s*', rbody)
    if not m:
        raise ParseError('phys.rs read: `let length = match &mut self.layer` not found')
    reads = {}
    for v, e in _arms(rp.block_after(rbody, m.end() - 1)[0], 'phys.rs read'):
        if e != 'x.read(buffer).await?':
            raise ParseError(f'phys.rs read: {v} arm is not `x.read(buffer).await?`: {e[:80]}')
        reads[v] = 'ReadPropagated'
    if not re.search(r'Ok\(length\)\s*$', rbody.strip()):
        raise ParseError('phys.rs read does not end with Ok(length)')
    # ---- write
    wbody = rp.find_body(impl, r'pub\(crate\)\s+async\s+fn\s+write\s*\([^)]*\)\s*->\s*Result<\(\),\s*std::io::Error>\s*\{')
    stm = statements(wbody)
    if len(stm) != 2 or not re.fullmatch(r'if decode_level\.enabled\(\) \{ tracing::info!\(.*\); \}', stm[0]) or not stm[1].startswith('match &mut self.layer {'):
        raise ParseError('phys.rs write: expected the TX log statement followed by `match &mut self.layer { .. }` as the returned expression')
    writes = {}
    for v, e in _arms(rp.block_after(wbody, wbody.index('match &mut self.layer'))[0], 'phys.rs write'):
        writes[v] = _write_call(v, e, 'phys.rs write')
    if set(reads) != set(writes):
        raise ParseError('phys.rs: read and write do not have the same transport arms')
    order = [v for v in VARIANTS if v in writes]
    out = '(* common/phys.rs: PhysLayer::read / PhysLayer::write, arm by arm *)\n'
    out += 'Inductive phys_variant := ' + ' | '.join(VARIANTS[v] for v in order) + '.\n'
    out += 'Inductive write_call := WriteAllReturned | WriteOnceCountDropped.\n'
    out += 'Inductive read_call := ReadPropagated.\n'
    out += 'Definition phys_write_arm (v : phys_variant) : write_call :=\n  match v with\n' + ''.join(f'  | {VARIANTS[v]} => {writes[v]}\n' for v in order) + '  end.\n'
    out += 'Definition phys_read_arm (v : phys_variant) : read_call :=\n  match v with\n' + ''.join(f'  | {VARIANTS[v]} => {reads[v]}\n' for v in order) + '  end.\n\n'
    # ---- server write_reply
    ssrc = rp.read(f'{repo}/rodbus/src/server/task.rs')
    body = rp.find_body(ssrc, r'async\s+fn\s+write_reply\s*\([^)]*\)\s*->\s*Result<\(\),\s*RequestError>\s*\{')
    flat = ' '.join(body.split())
    once = (r'let level = decode\.physical; let end = async \{ loop \{ match commands\.recv\(\)\.await \{ '
            r'None \| Some\(ServerCommand::Shutdown\) => return, Some\(ServerCommand::ChangeDecoding\(x\)\) => \*decode = x, \} \} \}; '
            r'tokio::select! \{ res = io\.write\(bytes, level\) => Ok\(res\?\), _ = end => Err\(RequestError::Shutdown\), \}')
    loop = (r'loop \{ tokio::select! \{ res = io\.write\(bytes, decode\.physical\) => return Ok\(res\?\), cmd = commands\.recv\(\) => match cmd \{ '
            r'None \| Some\(ServerCommand::Shutdown\) => return Err\(RequestError::Shutdown\), Some\(ServerCommand::ChangeDecoding\(x\)\) => \*decode = x, \} \} \}')
    if re.fullmatch(once, flat):
        shape = 'WriteOnceRacedAgainstCommands'
    else:
        # not the known text: classify by structure. Where is the write future created? If `io.write(` sits inside a
        # `loop { .. }` body that also takes commands off the channel, every command that does not end the wait makes
        # the loop go round and a NEW write future start from the first byte (textual variants of seeded c06_6 / c01_7)
        writes = [m.start() for m in re.finditer(r'\bio\s*\.\s*write\s*\(', flat)]
        if len(writes) != 1:
            raise ParseError(f'server/task.rs write_reply: expected exactly one io.write(..), found {len(writes)}')
        inside_loop = False
        for m in re.finditer(r'\bloop\s*\{', flat):
            blk, end = rp.block_after(flat, m.start())
            if m.end() <= writes[0] < end and re.search(r'commands\s*\.\s*(recv|try_recv)\s*\(', blk):
                inside_loop = True
        if inside_loop:
            shape = 'WriteRecreatedAfterEveryCommand'
        else:
            raise ParseError('server/task.rs write_reply: body is none of the recognised shapes: ' + flat[:160])
    calls = re.findall(r'write_reply\(io, \w+, &mut self\.commands, &mut self\.decode\)\.await\?', ' '.join(ssrc.split()))
    direct = re.findall(r'\bio\s*\.\s*write\s*\(', ssrc)
    if len(calls) < 1 or len(direct) != 1:
        raise ParseError(f'server/task.rs: expected every reply to go through write_reply (found {len(calls)} calls) and exactly one io.write (found {len(direct)})')
    out += '(* server/task.rs: write_reply - every reply of the session goes through it *)\n'
    out += 'Inductive write_reply_shape_t := WriteOnceRacedAgainstCommands | WriteRecreatedAfterEveryCommand.\n'
    out += f'Definition write_reply_shape : write_reply_shape_t := {shape}.\n'
    out += f'Definition write_reply_call_sites : nat := {len(calls)}.\n\n'
    # ---- client execute_request
    csrc = rp.read(f'{repo}/rodbus/src/client/task.rs')
    ebody = rp.find_body(csrc, r'async\s+fn\s+execute_request\s*\(')
    eflat = ' '.join(ebody.split())
    direct = len(re.findall(r'io\.write\(bytes, self\.decode\.physical\)\.await\?;', eflat))
    bounded = len(re.findall(r'match tokio::time::timeout\(request\.timeout, io\.write\(bytes, self\.decode\.physical\)\)\.await \{ '
                             r'Ok\(res\) => res\?, Err\(_\) => return Err\(RequestError::Io\(std::io::ErrorKind::TimedOut\)\), \}', eflat))
    if direct + bounded != 1 or len(re.findall(r'\bio\s*\.\s*write\s*\(', csrc)) != 1:
        raise ParseError('client/task.rs: the request write of execute_request is neither `io.write(bytes, self.decode.physical).await?;` '
                         'nor that write bounded by tokio::time::timeout(request.timeout, ..) -> Io(TimedOut)')
    # the write must come before the response deadline is taken (C12: the timeout runs from the transmission)
    wpos = eflat.find('io.write(bytes')
    dpos = eflat.find('let deadline = Instant::now() + request.timeout;')
    if dpos < 0 or wpos > dpos:
        raise ParseError('client/task.rs execute_request: the response deadline is not taken after the request write')
    out += '(* client/task.rs: execute_request awaits the request write itself (it is not a select! branch: commands that\n'
    out += '   arrive meanwhile stay queued); since F14 the wait is bounded by the request timeout and ends the session with Io(TimedOut) *)\n'
    out += 'Inductive client_write_shape_t := ClientWriteAwaitedUnbounded | ClientWriteBoundedByRequestTimeout.\n'
    out += f'Definition client_write_shape : client_write_shape_t := {"ClientWriteBoundedByRequestTimeout" if bounded else "ClientWriteAwaitedUnbounded"}.\n'
    out += 'Definition client_write_awaited_directly : bool := true.\n'
    return out
