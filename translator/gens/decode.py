"""Gen/DecodeUses.v: every place where a decode (logging) level can influence control flow.

A decode level is an opaque value except through (a) the boolean predicate methods defined on
the level types in decode.rs, (b) ==/!= comparisons, (c) `match` on a level enum. This generator
inventories every such occurrence in rodbus/src (test modules and the verif hook module
excluded) and classifies its syntactic context:

  LogOnly    condition of an `if` without `else` whose body consists only of tracing macro calls
             (possibly under `if let PAT = EXPR { ... }` with a pure EXPR)
  InDisplay  inside a function that takes a `Formatter` (Display::fmt / Loggable::log): it can only
             change the text handed to the logger
  SpanOnly   `if LEVEL != nothing() { E.instrument(..).await } else { E.await }` with identical E
  Definition inside decode.rs itself (the predicate definitions)
  Other      anything else - a decode-dependent effect; theorem C20_uses_observational fails

The Coq side proves that a program whose decode uses are all of the first three kinds has
level-independent observable behaviour (Model/LogLang.v).
"""
import os
import re
import rustparse as rp
from rustparse import ParseError
from registry import generator

LEVEL_TYPES = ['AppDecodeLevel', 'FrameDecodeLevel', 'PhysDecodeLevel', 'DecodeLevel']
LOG_MACRO = r'tracing::(?:trace|debug|info|warn|error)!'


def strip_test_modules(src):
    out = src
    while True:
        m = re.search(r'#\[cfg\(test\)\]\s*(?:pub(?:\([a-z]+\))?\s+)?mod\s+\w+\s*\{', out)
        if not m:
            return out
        _, end = rp.block_after(out, m.end() - 1)
        out = out[:m.start()] + out[end:]


def predicates(decode_src):
    preds = set()
    for ty in LEVEL_TYPES:
        for m in re.finditer(r'impl\s+' + ty + r'\s*\{', decode_src):
            body, _ = rp.block_after(decode_src, m.end() - 1)
            for f in re.finditer(r'fn\s+(\w+)\s*\(\s*&self\s*\)\s*->\s*bool', body):
                preds.add(f.group(1))
    if not preds:
        raise ParseError('decode.rs: no predicate methods found')
    return sorted(preds)


def enclosing_fn(src, pos):
    """(name, signature text, body start, body end) of the innermost fn containing pos"""
    best = None
    for m in re.finditer(r'\bfn\s+(\w+)\s*(?:<[^>{}]*>)?\s*\(', src):
        if m.start() > pos:
            break
        # find the body's opening brace: first '{' at paren depth 0 after the signature
        i = m.end() - 1
        depth = 0
        j = i
        while j < len(src):
            if src[j] == '(':
                depth += 1
            elif src[j] == ')':
                depth -= 1
            elif src[j] == ';' and depth == 0:
                j = None
                break
            elif src[j] == '{' and depth == 0:
                break
            j += 1
        if j is None or j >= len(src):
            continue
        try:
            _, end = rp.block_after(src, j)
        except ParseError:
            continue
        if j <= pos < end:
            best = (m.group(1), src[m.start():j], j, end)
    return best


PURE_BAD = r'\?|\.await\b|\breturn\b|\bbreak\b|\bcontinue\b|[^=!<>]=[^=>]|\bmut\b'


def pure(expr):
    """no early exit, await, assignment or mutable borrow (calls are allowed only via method syntax on values)"""
    return not re.search(PURE_BAD, ' ' + strip_strings(expr) + ' ')


def skip_parens(b, i):
    depth = 0
    while i < len(b):
        if b[i] in '([':
            depth += 1
        elif b[i] in ')]':
            depth -= 1
            if depth == 0:
                return i
        i += 1
    raise ParseError('unbalanced parentheses in log block')


def log_only(body):
    """body consists only of tracing macro statements, pure `let`s, and if / if-let / match whose
    branches are again log-only and whose conditions / scrutinees are pure"""
    b = body.strip()
    while b:
        b = re.sub(r'^(#\[[^\]]*\]\s*)+', '', b)
        m = re.match(LOG_MACRO + r'\s*\(', b)
        if m:
            i = skip_parens(b, m.end() - 1)
            if not pure(b[m.end():i].replace('=', ' ')):     # `name = value` fields are fine inside the macro
                return False
            b = b[i + 1:].lstrip().lstrip(';,').lstrip()
            continue
        m = re.match(r'let\s+[^=;]+=\s*([^;]+);', b)
        if m:
            if not pure(m.group(1)):
                return False
            b = b[m.end():].lstrip()
            continue
        m = re.match(r'if\s+(let\s+[^=]+=\s*)?([^{]+)\{', b)
        if m:
            if not pure(m.group(2)):
                return False
            inner, end = rp.block_after(b, m.end() - 1)
            if not log_only(inner):
                return False
            b = b[end:].lstrip()
            while b.startswith('else'):
                b = b[4:].lstrip()
                if b.startswith('if'):
                    m2 = re.match(r'if\s+(let\s+[^=]+=\s*)?([^{]+)\{', b)
                    if not m2 or not pure(m2.group(2)):
                        return False
                    inner, end = rp.block_after(b, m2.end() - 1)
                else:
                    inner, end = rp.block_after(b, 0)
                if not log_only(inner):
                    return False
                b = b[end:].lstrip()
            continue
        m = re.match(r'match\s+([^{]+)\{', b)
        if m:
            if not pure(m.group(1)):
                return False
            inner, end = rp.block_after(b, m.end() - 1)
            for pat, expr in rp.match_arms(re.sub(r'#\[[^\]]*\]', '', inner)):
                e = expr.strip()
                if e.startswith('{') and e.endswith('}'):
                    e = e[1:-1]
                if not log_only(e):
                    return False
            b = b[end:].lstrip()
            continue
        return False
    return True


def strip_strings(s):
    return re.sub(r'"(?:[^"\\]|\\.)*"', '""', s)


def classify(src, pos, fname):
    fn = enclosing_fn(src, pos)
    if fname.endswith('decode.rs'):
        return 'Definition', fn[0] if fn else '?'
    name = fn[0] if fn else '?'
    if fn and re.search(r'\bFormatter\b', fn[1]):
        return 'InDisplay', name
    # is the occurrence inside the condition of an `if`?
    # find the nearest preceding `if` such that no `{`, `}` or `;` lies between it and pos
    k = max(src.rfind(' if ', 0, pos), src.rfind('\nif ', 0, pos), src.rfind('(if ', 0, pos), src.rfind('=if ', 0, pos))
    if k >= 0 and not re.search(r'[{};]', src[k:pos]):
        brace = src.find('{', pos)
        if brace >= 0 and not re.search(r'[;}]', src[pos:brace]):
            cond = src[k:brace]
            body, end = rp.block_after(src, brace)
            rest = src[end:].lstrip()
            if rest.startswith('else'):
                ebody, _ = rp.block_after(src, end)
                norm = lambda t: re.sub(r'\s+', '', re.sub(r'\.instrument\((?:[^()]|\([^()]*\))*\)', '', t))
                if '.instrument(' in body + ebody and norm(body) == norm(ebody):
                    return 'SpanOnly', name
                # an if / else-if / else chain is log-only when the whole chain is
                chain_end = end
                t = src[chain_end:]
                while t.lstrip().startswith('else'):
                    _, e2 = rp.block_after(src, chain_end)
                    chain_end = e2
                    t = src[chain_end:]
                if log_only(src[k:chain_end].strip().lstrip('(=')):
                    return 'LogOnly', name
                return 'Other', name
            if re.search(r'&&|\|\|', cond) and re.search(r'\?|\.await', cond):
                return 'Other', name
            if log_only(body):
                return 'LogOnly', name
            return 'Other', name
    return 'Other', name


@generator('DecodeUses.v', 'rodbus/src/**/*.rs')
def gen_decode_uses(repo):
    root = os.path.join(repo, 'rodbus', 'src')
    decode_src = rp.read(os.path.join(root, 'decode.rs'))
    preds = predicates(decode_src)
    uses = []
    files = []
    for d, _, fs in os.walk(root):
        for f in fs:
            if f.endswith('.rs') and f != 'verif.rs':
                files.append(os.path.join(d, f))
    for path in sorted(files):
        src = strip_test_modules(rp.read(path))
        rel = os.path.relpath(path, root)
        occ = []
        for m in re.finditer(r'\.\s*(' + '|'.join(preds) + r')\s*\(\s*\)', src):
            # receiver must look like a level (avoid unrelated methods of the same name)
            recv = re.search(r'([\w.]+)\s*$', src[max(0, m.start() - 60):m.start()])
            rtxt = recv.group(1) if recv else ''
            if re.search(r'decode|level|app|frame|physical|phys', rtxt, re.I) or rel == 'decode.rs':
                occ.append((m.start(), m.group(1)))
        for m in re.finditer(r'(==|!=)\s*(?:crate::)?(?:decode::)?(?:' + '|'.join(LEVEL_TYPES) + r')::', src):
            occ.append((m.start(), 'cmp'))
        for m in re.finditer(r'\b(?:' + '|'.join(LEVEL_TYPES[:3]) + r')::(\w+)\s*(?:=>|\|)', src):
            occ.append((m.start(), 'match'))
        for pos, what in sorted(occ):
            kind, fn = classify(src, pos, rel)
            uses.append((rel, fn, what, kind))
    if len([u for u in uses if u[3] != 'Definition']) < 5:
        raise ParseError('decode uses: implausibly few occurrences found')
    out = '(* every control-flow use of a decode level outside its definition: (file, function, predicate, context) *)\n'
    out += 'Inductive use_kind := LogOnly | InDisplay | SpanOnly | Definition_ | OtherUse.\n'
    kmap = {'LogOnly': 'LogOnly', 'InDisplay': 'InDisplay', 'SpanOnly': 'SpanOnly', 'Definition': 'Definition_', 'Other': 'OtherUse'}
    out += 'Local Open Scope string_scope.\n'
    out += 'Definition decode_predicates : list string := [' + '; '.join(f'"{p}"' for p in preds) + '].\n'
    out += 'Definition decode_uses : list (string * string * string * use_kind) := [\n'
    out += ';\n'.join(f'  ("{f}", "{fn}", "{w}", {kmap[k]})' for f, fn, w, k in uses)
    out += '\n].\n'
    return out
