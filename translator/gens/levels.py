"""Generator for Gen/DecodeLevels.v: enum AppDecodeLevel (decode.rs) and its predicates
enabled / header / data_headers / data_values, which guard every logging walk (C04_Logging)."""
import re
import rustparse as rp
from rustparse import ParseError
from registry import generator


@generator('DecodeLevels.v', 'rodbus/src/decode.rs')
def gen_decode_levels(repo):
    src = rp.read(f'{repo}/rodbus/src/decode.rs')
    body = rp.find_body(src, r'pub\s+enum\s+AppDecodeLevel\s*\{')
    variants = []
    for item in rp.split_top(body):
        item = re.sub(r'#\[[^\]]*\]', '', item).strip()
        if not item:
            continue
        if not re.fullmatch(r'[A-Z][A-Za-z]*', item):
            raise ParseError('AppDecodeLevel variant not understood: ' + item)
        variants.append(item)
    impl = rp.find_body(src, r'impl\s+AppDecodeLevel\s*\{')
    out = '(* decode.rs: enum AppDecodeLevel *)\nInductive app_level := ' + ' | '.join('Al' + v for v in variants) + '.\n'
    out += 'Definition app_levels : list app_level := [' + '; '.join('Al' + v for v in variants) + '].\n\n'
    for fn in ('header', 'data_headers', 'data_values'):
        fb = rp.find_body(impl, r'pub\(crate\)\s+fn\s+' + fn + r'\s*\(\s*&self\s*\)\s*->\s*bool\s*\{')
        arms = rp.match_arms(rp.first_match_body(fb, r'self\s*'))
        got = {}
        for pat, expr in arms:
            m = re.fullmatch(r'AppDecodeLevel::([A-Za-z]+)', pat)
            if not m or m.group(1) not in variants or expr not in ('true', 'false'):
                raise ParseError(f'AppDecodeLevel::{fn}: arm not understood: {pat} => {expr}')
            got[m.group(1)] = expr
        if set(got) != set(variants):
            raise ParseError(f'AppDecodeLevel::{fn} does not cover every variant')
        out += f'Definition al_{fn} (l : app_level) : bool :=\n  match l with\n' + ''.join(f'  | Al{v} => {got[v]}\n' for v in variants) + '  end.\n'
    eb = rp.find_body(impl, r'pub\(crate\)\s+fn\s+enabled\s*\(\s*&self\s*\)\s*->\s*bool\s*\{').strip()
    m = re.fullmatch(r'self\.(header|data_headers|data_values)\(\)', eb)
    if not m:
        raise ParseError('AppDecodeLevel::enabled is not one of the other predicates: ' + eb)
    out += f'Definition al_enabled (l : app_level) : bool := al_{m.group(1)} l.\n'
    return out
