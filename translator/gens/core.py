"""Generators for Gen/Defaults.v and Gen/Consts.v."""
import re
import rustparse as rp
from rustparse import ParseError
from registry import generator, duration_ns


@generator('Defaults.v', 'rodbus/src/retry.rs')
def gen_defaults(repo):
    src = rp.read(f'{repo}/rodbus/src/retry.rs')
    body = rp.find_body(src, r'pub\s+fn\s+default_retry_strategy\s*\(\s*\)\s*->\s*Box<dyn RetryStrategy>\s*\{')
    m = re.search(r'doubling_retry_strategy\s*\((.*)\)\s*$', body.strip(), re.S)
    if not m:
        raise ParseError('default_retry_strategy body is not a doubling_retry_strategy(..) call')
    args = rp.split_top(m.group(1))
    if len(args) != 2:
        raise ParseError('doubling_retry_strategy call does not have two arguments')
    out = '(* default_retry_strategy() = doubling_retry_strategy(min, max), in nanoseconds *)\n'
    out += f'Definition default_retry_min : N := {duration_ns(args[0])}.\n'
    out += f'Definition default_retry_max : N := {duration_ns(args[1])}.\n'
    return out


@generator('Consts.v', 'rodbus/src/constants.rs', 'rodbus/src/common/frame.rs', 'rodbus/src/tcp/frame.rs',
           'rodbus/src/serial/frame.rs', 'rodbus/src/common/function.rs')
def gen_consts(repo):
    out = ''
    c = rp.consts(rp.read(f'{repo}/rodbus/src/constants.rs'))
    env = {}
    want = ['ON', 'OFF', 'MAX_READ_COILS_COUNT', 'MAX_READ_REGISTERS_COUNT', 'MAX_WRITE_COILS_COUNT',
            'MAX_WRITE_REGISTERS_COUNT', 'ILLEGAL_FUNCTION', 'ILLEGAL_DATA_ADDRESS', 'ILLEGAL_DATA_VALUE',
            'SERVER_DEVICE_FAILURE', 'ACKNOWLEDGE', 'SERVER_DEVICE_BUSY', 'MEMORY_PARITY_ERROR',
            'GATEWAY_PATH_UNAVAILABLE', 'GATEWAY_TARGET_DEVICE_FAILED_TO_RESPOND']
    for k in want:
        if k not in c:
            raise ParseError(f'constants.rs: const {k} not found')
        env[k] = rp.eval_const(c[k], env)
    out += '(* constants.rs *)\n'
    out += f'Definition coil_on : N := {env["ON"]}.\nDefinition coil_off : N := {env["OFF"]}.\n'
    for k in want[2:]:
        out += f'Definition {k.lower()} : N := {env[k]}.\n'
    # frame constants
    cf = rp.consts(rp.find_body(rp.read(f'{repo}/rodbus/src/common/frame.rs'), r'pub\(crate\)\s+mod\s+constants\s*\{'))
    ct = rp.consts(rp.find_body(rp.read(f'{repo}/rodbus/src/tcp/frame.rs'), r'pub\(crate\)\s+mod\s+constants\s*\{'))
    cs = rp.consts(rp.find_body(rp.read(f'{repo}/rodbus/src/serial/frame.rs'), r'pub\(crate\)\s+mod\s+constants\s*\{'))
    e = {}
    e['MAX_ADU_LENGTH'] = rp.eval_const(cf['MAX_ADU_LENGTH'], e)
    tcp = dict(e)
    for k in ['HEADER_LENGTH', 'MAX_FRAME_LENGTH', 'MAX_LENGTH_FIELD']:
        if k not in ct:
            raise ParseError(f'tcp/frame.rs: const {k} not found')
        tcp[k] = rp.eval_const(ct[k], tcp)
    ser = dict(e)
    for k in ['HEADER_LENGTH', 'FUNCTION_CODE_LENGTH', 'CRC_LENGTH', 'MAX_FRAME_LENGTH']:
        if k not in cs:
            raise ParseError(f'serial/frame.rs: const {k} not found')
        ser[k] = rp.eval_const(cs[k], ser)
    # common::frame::constants::MAX_FRAME_LENGTH = max(tcp, serial)
    if not re.search(r'MAX_FRAME_LENGTH\s*:\s*usize\s*=\s*max\(\s*crate::tcp::frame::constants::MAX_FRAME_LENGTH\s*,\s*serial_frame_size\(\)\s*,?\s*\)', rp.read(f'{repo}/rodbus/src/common/frame.rs')):
        raise ParseError('common/frame.rs: MAX_FRAME_LENGTH is not max(tcp, serial)')
    out += '\n(* common/frame.rs, tcp/frame.rs, serial/frame.rs (lengths as nat) *)\n'
    out += f'Definition max_adu_length : nat := {e["MAX_ADU_LENGTH"]}.\n'
    out += f'Definition mbap_header_length : nat := {tcp["HEADER_LENGTH"]}.\n'
    out += f'Definition mbap_max_frame_length : nat := {tcp["MAX_FRAME_LENGTH"]}.\n'
    out += f'Definition mbap_max_length_field : nat := {tcp["MAX_LENGTH_FIELD"]}.\n'
    out += f'Definition rtu_header_length : nat := {ser["HEADER_LENGTH"]}.\n'
    out += f'Definition rtu_function_code_length : nat := {ser["FUNCTION_CODE_LENGTH"]}.\n'
    out += f'Definition rtu_crc_length : nat := {ser["CRC_LENGTH"]}.\n'
    out += f'Definition rtu_max_frame_length : nat := {ser["MAX_FRAME_LENGTH"]}.\n'
    out += f'Definition buffer_capacity : nat := {max(tcp["MAX_FRAME_LENGTH"], ser["MAX_FRAME_LENGTH"])}.\n'
    # function codes
    fsrc = rp.read(f'{repo}/rodbus/src/common/function.rs')
    fc = rp.consts(rp.find_body(fsrc, r'\bmod\s+constants\s*\{'))
    fenv = {k: rp.eval_const(v, {}) for k, v in fc.items()}
    enum_body = rp.find_body(fsrc, r'pub\(crate\)\s+enum\s+FunctionCode\s*\{')
    variants = []
    for item in rp.split_top(enum_body):
        if not item:
            continue
        m = re.fullmatch(r'([A-Za-z]+)\s*=\s*(.+)', item, re.S)
        if not m:
            raise ParseError('FunctionCode variant without discriminant: ' + item)
        variants.append((m.group(1), rp.eval_const(m.group(2), fenv)))
    out += '\n(* common/function.rs: enum FunctionCode discriminants and FunctionCode::get *)\n'
    out += 'Inductive fcode := ' + ' | '.join(v for v, _ in variants) + '.\n'
    out += 'Definition fcode_value (f : fcode) : N :=\n  match f with\n'
    for v, n in variants:
        out += f'  | {v} => {n}\n'
    out += '  end.\n'
    get_body = rp.first_match_body(rp.find_body(fsrc, r'pub\(crate\)\s+fn\s+get\s*\(\s*value\s*:\s*u8\s*\)\s*->\s*Option<Self>\s*\{'))
    out += 'Definition fcode_get (v : N) : option fcode :=\n  match v with\n'
    seen_default = False
    for pat, expr in rp.match_arms(get_body):
        if pat == '_':
            if expr != 'None':
                raise ParseError('FunctionCode::get default arm is not None')
            seen_default = True
            continue
        m = re.fullmatch(r'Some\(\s*FunctionCode::([A-Za-z]+)\s*\)', expr)
        if not m:
            raise ParseError('FunctionCode::get arm not understood: ' + expr)
        out += f'  | {rp.eval_const(pat, fenv)} => Some {m.group(1)}\n'
    if not seen_default:
        raise ParseError('FunctionCode::get has no default arm')
    out += '  | _ => None\n  end.\n'
    return out


