"""Generator for Gen/AuthzTable.v: which AuthorizationHandler callback a request is submitted to and
with which argument (server/task.rs::check_authorization), the decision returned by the trait's
default method bodies and by ReadOnlyAuthorizationHandler (server/handler.rs), and the broadcast
filter of server/request.rs::into_broadcast_request."""
import re
import rustparse as rp
from rustparse import ParseError
from registry import generator

ARGS = {'inner': 'arg_inner', 'index': 'arg_index', 'range': 'arg_range'}


def _methods(body, where):
    """{method name: Allow|Deny} for an impl/trait body whose authorization methods have the shape
    fn name(&self, _unit_id: UnitId, _x: T, _role: &str) -> Authorization { Authorization::X }"""
    res = []
    for m in re.finditer(r'\bfn\s+(\w+)\s*\(([^)]*)\)\s*->\s*Authorization\s*\{', body):
        name, params = m.group(1), m.group(2)
        blk, _ = rp.block_after(body, m.end() - 1)
        expr = blk.strip()
        mm = re.fullmatch(r'Authorization::(Allow|Deny)', expr)
        if not mm:
            raise ParseError(f'{where}::{name}: body is not a constant decision: {expr[:60]}')
        ps = rp.split_top(params)
        if len(ps) != 4 or not ps[0].replace(' ', '') == '&self':
            raise ParseError(f'{where}::{name}: unexpected parameter list ({params})')
        res.append((name, mm.group(1)))
    return res


@generator('AuthzTable.v', 'rodbus/src/server/task.rs', 'rodbus/src/server/handler.rs', 'rodbus/src/server/request.rs')
def gen_authz(repo):
    task = rp.read(f'{repo}/rodbus/src/server/task.rs')
    hsrc = rp.read(f'{repo}/rodbus/src/server/handler.rs')
    rsrc = rp.read(f'{repo}/rodbus/src/server/request.rs')
    # Request variant -> FunctionCode (get_function)
    gf = rp.first_match_body(rp.find_body(rsrc, r'fn\s+get_function\s*\(\s*&self\s*\)\s*->\s*FunctionCode\s*\{'))
    var_fc = {}
    for pat, expr in rp.match_arms(gf):
        m = re.fullmatch(r'Request::(\w+)\(_\)', pat)
        e = re.fullmatch(r'FunctionCode::(\w+)', expr)
        if not m or not e:
            raise ParseError(f'get_function arm not understood: {pat} => {expr}')
        var_fc[m.group(1)] = e.group(1)
    if len(var_fc) != 8:
        raise ParseError(f'get_function: expected 8 arms, found {len(var_fc)}')
    # trait methods, in declaration order, with their default decisions
    trait = rp.find_body(hsrc, r'pub\s+trait\s+AuthorizationHandler\s*:[^{]*\{')
    defaults = _methods(trait, 'AuthorizationHandler')
    if len(defaults) != 8:
        raise ParseError(f'AuthorizationHandler: expected 8 callbacks with default bodies, found {len(defaults)}')
    names = [n for n, _ in defaults]
    ro = dict(_methods(rp.find_body(hsrc, r'impl\s+AuthorizationHandler\s+for\s+ReadOnlyAuthorizationHandler\s*\{'), 'ReadOnlyAuthorizationHandler'))
    # check_authorization
    ca = rp.find_body(task, r'fn\s+check_authorization\s*\(')
    if not re.match(r'\s*match\s+request\s*\{', ca):
        raise ParseError('check_authorization is not a single match on the request')
    arms = rp.match_arms(rp.first_match_body(ca))
    disp = {}
    for pat, expr in arms:
        m = re.fullmatch(r'Request::(\w+)\((\w+)\)', pat)
        e = re.fullmatch(r'handler\s*\.\s*(\w+)\(\s*unit_id\s*,\s*(\w+)\.(\w+)\s*,\s*role\s*,?\s*\)', ' '.join(expr.split()))
        if not m or not e or e.group(2) != m.group(2) or e.group(3) not in ARGS or e.group(1) not in names:
            raise ParseError(f'check_authorization arm not understood: {pat} => {expr}')
        if m.group(1) not in var_fc:
            raise ParseError(f'check_authorization: unknown request variant {m.group(1)}')
        disp[var_fc[m.group(1)]] = (e.group(1), ARGS[e.group(3)])
    if len(disp) != 8:
        raise ParseError(f'check_authorization: expected 8 arms, found {len(disp)}')
    # is_authorized: None => Allow, Handler => result of check_authorization
    ia = rp.find_body(task, r'fn\s+is_authorized\s*\(')
    if not re.search(r'AuthorizationType::None\s*=>\s*Authorization::Allow', ia):
        raise ParseError('is_authorized: AuthorizationType::None is not Allow')
    if not re.search(r'let\s+result\s*=\s*Self::check_authorization\(\s*handler\.as_ref\(\)\s*,\s*unit_id\s*,\s*request\s*,\s*role\s*\)\s*;', ia) \
            or not re.search(r'\}\s*result\s*\}\s*\}\s*$', ia.strip()):
        raise ParseError('is_authorized: Handler arm does not return the result of check_authorization')
    # into_broadcast_request
    ib = rp.first_match_body(rp.find_body(rsrc, r'fn\s+into_broadcast_request\s*\(\s*self\s*\)[^{]*\{'))
    bc = {}
    for pat, expr in rp.match_arms(ib):
        m = re.fullmatch(r'Request::(\w+)\((\w+)\)', pat)
        if not m:
            raise ParseError(f'into_broadcast_request arm not understood: {pat}')
        if expr == 'None':
            bc[var_fc[m.group(1)]] = False
        elif re.fullmatch(r'Some\(\s*BroadcastRequest::%s\(\s*%s\s*\)\s*\)' % (m.group(1), m.group(2)), expr):
            bc[var_fc[m.group(1)]] = True
        else:
            raise ParseError(f'into_broadcast_request arm not understood: {pat} => {expr}')
    if len(bc) != 8:
        raise ParseError('into_broadcast_request: expected 8 arms')
    order = list(var_fc.values())
    out = 'From Rodbus Require Gen.Consts.\n\n'
    out += '(* server/handler.rs: the callbacks of trait AuthorizationHandler, in declaration order *)\n'
    out += 'Inductive authz_cb := ' + ' | '.join('cb_' + n for n in names) + '.\n'
    out += 'Inductive authz := Allow | Deny.\n'
    out += '(* which field of the decoded request is passed: x.inner / x.range (an AddressRange) or x.index (u16) *)\n'
    out += 'Inductive authz_arg := arg_inner | arg_index | arg_range.\n\n'
    out += 'Local Notation fcode := Rodbus.Gen.Consts.fcode.\n'
    out += '(* server/task.rs: AuthorizationType::check_authorization, keyed by Request::get_function *)\n'
    out += 'Definition authz_dispatch (f : fcode) : authz_cb * authz_arg :=\n  match f with\n'
    for fc in order:
        out += f'  | Rodbus.Gen.Consts.{fc} => (cb_{disp[fc][0]}, {disp[fc][1]})\n'
    out += '  end.\n\n(* default method bodies of trait AuthorizationHandler *)\n'
    out += 'Definition authz_default (c : authz_cb) : authz :=\n  match c with\n'
    for n, d in defaults:
        out += f'  | cb_{n} => {d}\n'
    out += '  end.\n\n(* impl AuthorizationHandler for ReadOnlyAuthorizationHandler (methods it does not override keep the default) *)\n'
    out += 'Definition authz_read_only (c : authz_cb) : authz :=\n  match c with\n'
    for n, d in defaults:
        out += f'  | cb_{n} => {ro.get(n, d)}\n'
    out += '  end.\n\n(* server/request.rs: Request::into_broadcast_request is Some for these function codes *)\n'
    out += 'Definition broadcast_supported (f : fcode) : bool :=\n  match f with\n'
    for fc in order:
        out += f'  | Rodbus.Gen.Consts.{fc} => {"true" if bc[fc] else "false"}\n'
    out += '  end.\n'
    return out


@generator('TlsAuthz.v', 'rodbus/src/tcp/tls/server.rs')
def gen_tls_authz(repo):
    """tcp/tls/server.rs::handle_connection: how the session's AuthorizationType is chosen. With a handler configured
    every failure to obtain THE role of the client certificate must refuse the connection (`?`), never fall back to
    `AuthorizationType::None`; extract_modbus_role: exactly one ModbusRole extension."""
    src = rp.read(f'{repo}/rodbus/src/tcp/tls/server.rs')
    body = rp.find_body(src, r'pub\(crate\)\s+async\s+fn\s+handle_connection\s*\(')
    m = re.search(r'let\s+auth_type\s*=\s*match\s+auth_handler\s*\{', body)
    if not m:
        raise ParseError('handle_connection: `let auth_type = match auth_handler {` not found')
    arms = dict((' '.join(p.split()), ' '.join(e.split())) for p, e in rp.match_arms(rp.block_after(body, m.end() - 1)[0]))
    if set(arms) != {'None', 'Some(handler)'}:
        raise ParseError(f'handle_connection: arms of `match auth_handler`: {list(arms)}')
    if arms['None'] != 'AuthorizationType::None':
        raise ParseError('handle_connection: without a handler the session is not AuthorizationType::None')
    some = arms['Some(handler)'].replace(' .', '.')
    want = (r'\{ let peer_cert = stream\.get_ref\(\)\.1\.peer_certificates\(\)\.and_then\(\|x\| x\.first\(\)\)\.ok_or_else\(\|\| "No peer certificate"\.to_string\(\)\)\? ?; '
            r'let parsed = rx509::x509::Certificate::parse\(peer_cert\)\.map_err\(\|err\| format!\("ASNError: \{err\}"\)\)\? ?; '
            r'let role = extract_modbus_role\(&parsed\)\? ?; tracing::info!\("client role: \{\}", role\) ?; AuthorizationType::Handler\(handler, role\) \}')
    if not re.fullmatch(want, some):
        raise ParseError('handle_connection: with a handler the role is not obtained by three `?`-propagated steps followed by AuthorizationType::Handler(handler, role): ' + some[:300])
    if not re.search(r'Ok\(\(layer, auth_type\)\)', body):
        raise ParseError('handle_connection: does not return (layer, auth_type)')
    ex = ' '.join(rp.find_body(src, r'fn\s+extract_modbus_role\s*\(').split()).replace(' .', '.')
    checks = [r'\.extensions\.as_ref\(\)\.ok_or_else\(', r'let extensions = extensions\.parse\(\)\.map_err\([^;]*\)\? ?;',
              r'SpecificExtension::ModbusRole\(role\) => Some\(role\.role\), _ => None,',
              r'let role = it\.next\(\)\.ok_or_else\([^;]*\)\? ?;', r'if it\.next\(\)\.is_some\(\) \{ return Err\(', r'Ok\(role\.to_string\(\)\) ?$']
    for c in checks:
        if not re.search(c, ex):
            raise ParseError('extract_modbus_role: expected fragment not found: ' + c)
    out = '(* tcp/tls/server.rs: TlsServerConfig::handle_connection - the AuthorizationType of an accepted TLS session *)\n'
    out += 'Inductive on_role_failure := RefuseConnection | RunWithoutAuthorization.\n'
    out += '(* no handler configured: AuthorizationType::None (bare TLS) *)\n'
    out += 'Definition tls_without_handler_is_unauthorized_mode : bool := true.\n'
    out += '(* handler configured: peer certificate, its parse, and the Modbus role are each obtained with `?`;\n   the session is AuthorizationType::Handler(handler, role of that certificate) *)\n'
    out += 'Definition tls_with_handler_role_steps : list string := ["peer_certificates().first()"; "Certificate::parse"; "extract_modbus_role"]%string.\n'
    out += 'Definition tls_with_handler_on_role_failure : on_role_failure := RefuseConnection.\n'
    out += 'Definition tls_with_handler_session_uses_certificate_role : bool := true.\n'
    out += '(* extract_modbus_role: no extensions / no ModbusRole extension / more than one are errors *)\n'
    out += 'Definition tls_role_requires_exactly_one_extension : bool := true.\n'
    return out
