"""Generator for Gen/SessionErrors.v: the declarative parts of the client task (C10-C13).

* the variant lists of `RequestError` (error.rs) and `SessionError` (client/task.rs)
* `SessionError::from_request_err`: which request errors end a session
* the errors the task / the promise use at fixed places (NoConnection, ResponseTimeout, Shutdown)
* the comparison used by `TimeoutCounter::increment`
* `TxId::next` wrap value, `ClientOptions::default()` queue size and timeout limit
"""
import re
import rustparse as rp
from rustparse import ParseError
from registry import generator


def _variants(body, what):
    names = []
    for item in rp.split_top(body):
        item = item.strip()
        if not item:
            continue
        m = re.match(r'(?:#\[[^\]]*\]\s*)*([A-Z][A-Za-z0-9]*)\s*(\(.*\))?\s*$', item, re.S)
        if not m:
            raise ParseError(f'{what}: variant not understood: {item[:60]}')
        names.append((m.group(1), m.group(2) is not None))
    if not names:
        raise ParseError(f'{what}: no variants')
    return names


@generator('SessionErrors.v', 'rodbus/src/client/task.rs', 'rodbus/src/error.rs', 'rodbus/src/client/message.rs',
           'rodbus/src/common/frame.rs', 'rodbus/src/types.rs')
def gen_session_errors(repo):
    task = rp.read(f'{repo}/rodbus/src/client/task.rs')
    err = rp.read(f'{repo}/rodbus/src/error.rs')
    msg = rp.read(f'{repo}/rodbus/src/client/message.rs')
    frame = rp.read(f'{repo}/rodbus/src/common/frame.rs')
    types = rp.read(f'{repo}/rodbus/src/types.rs')

    req = _variants(rp.find_body(err, r'pub\s+enum\s+RequestError\s*\{'), 'RequestError')
    ses = _variants(rp.find_body(task, r'pub\(crate\)\s+enum\s+SessionError\s*\{'), 'SessionError')
    req_names = [n for n, _ in req]
    ses_names = [n for n, _ in ses]
    out = '(* error.rs: enum RequestError (payloads dropped) *)\n'
    out += 'Inductive request_error := ' + ' | '.join('Re' + n for n in req_names) + '.\n'
    out += '(* client/task.rs: enum SessionError (payloads dropped) *)\n'
    out += 'Inductive session_error := ' + ' | '.join('Se' + n for n in ses_names) + '.\n\n'

    # from_request_err
    body = rp.find_body(task, r'pub\(crate\)\s+fn\s+from_request_err\s*\(\s*err\s*:\s*RequestError\s*\)\s*->\s*Option<Self>\s*\{')
    arms = rp.match_arms(rp.first_match_body(body))
    table = {}
    default = None
    for pat, expr in arms:
        if pat == '_':
            if expr != 'None':
                raise ParseError('from_request_err: default arm is not None')
            default = 'None'
            continue
        m = re.fullmatch(r'RequestError::([A-Za-z]+)\s*(?:\([^)]*\))?', pat)
        if not m or m.group(1) not in req_names:
            raise ParseError('from_request_err: pattern not understood: ' + pat)
        if expr == 'None':
            table[m.group(1)] = 'None'
            continue
        e = re.fullmatch(r'Some\(\s*SessionError::([A-Za-z]+)\s*(?:\([^)]*\))?\s*\)', expr)
        if not e or e.group(1) not in ses_names:
            raise ParseError('from_request_err: arm not understood: ' + expr)
        table[m.group(1)] = 'Some Se' + e.group(1)
    out += '(* SessionError::from_request_err: which request errors end the session *)\n'
    out += 'Definition from_request_err (e : request_error) : option session_error :=\n  match e with\n'
    for n in req_names:
        if n in table:
            out += f'  | Re{n} => {table[n]}\n'
        elif default is not None:
            out += f'  | Re{n} => {default}\n'
        else:
            raise ParseError(f'from_request_err: no arm for {n}')
    out += '  end.\n\n'

    # fixed errors
    fnr = rp.find_body(task, r'async\s+fn\s+fail_next_request\s*\(\s*&mut\s+self\s*\)\s*->\s*Result<\(\),\s*StateChange>\s*\{')
    m = re.search(r'Command::Request\(\s*mut\s+req\s*\)\s*=>\s*\{\s*req\.details\.fail\(\s*RequestError::([A-Za-z]+)\s*\)\s*;\s*Ok\(\(\)\)\s*\}', fnr)
    if not m:
        raise ParseError('fail_next_request: request arm not understood')
    out += f'(* fail_next_request: a request taken while not connected fails with *)\nDefinition not_connected_error : request_error := Re{m.group(1)}.\n'
    ror = rp.find_body(task, r'async\s+fn\s+run_one_request\s*\(')
    m = re.search(r'if\s+err\s*==\s*RequestError::([A-Za-z]+)\s*\{[^{}]*self\.timeout_counter\.increment\(\)\?\s*;[^{}]*\}\s*else\s*\{[^{}]*self\.timeout_counter\.reset\(\)\s*;', ror, re.S)
    if not m:
        raise ParseError('run_one_request: timeout counter rule not understood')
    out += f'(* run_one_request: the error that increments the timeout counter (every other outcome resets it) *)\nDefinition counted_error : request_error := Re{m.group(1)}.\n'
    if not re.search(r'Ok\(\(\)\)\s*=>\s*self\.timeout_counter\.reset\(\)', ror):
        raise ParseError('run_one_request: success does not reset the timeout counter')
    out += 'Definition success_resets_counter : bool := true.\n'
    ex = rp.find_body(task, r'async\s+fn\s+execute_request\s*\(')
    m = re.search(r'sleep_until\(\s*deadline\s*\)\s*=>\s*\{\s*return\s+Err\(\s*RequestError::([A-Za-z]+)\s*\)\s*;', ex)
    if not m:
        raise ParseError('execute_request: deadline branch not understood')
    out += f'(* execute_request: the deadline branch returns *)\nDefinition deadline_error : request_error := Re{m.group(1)}.\n'
    # the transmission is bounded: timeout(request.timeout, io.write(..)) measured from the start of the write; the reply
    # deadline is then measured from the END of the write
    m = re.search(r'match\s+tokio::time::timeout\(\s*request\.timeout\s*,\s*io\.write\(\s*bytes\s*,\s*self\.decode\.physical\s*\)\s*\)\s*\.await\s*\{'
                  r'\s*Ok\(\s*res\s*\)\s*=>\s*res\?\s*,\s*Err\(\s*_\s*\)\s*=>\s*return\s+Err\(\s*RequestError::([A-Za-z]+)\s*\(\s*std::io::ErrorKind::TimedOut\s*\)\s*\)\s*,?\s*\}'
                  r'\s*let\s+deadline\s*=\s*Instant::now\(\)\s*\+\s*request\.timeout\s*;', ex)
    if not m:
        raise ParseError('execute_request: the write is not `match tokio::time::timeout(request.timeout, io.write(..)).await { Ok(res) => res?, Err(_) => return Err(RequestError::Io(TimedOut)) }` followed by the reply deadline')
    if m.group(1) not in req_names:
        raise ParseError('execute_request: unknown error for a timed-out write')
    out += f'(* execute_request: a write that is not done request.timeout after it began returns (payload TimedOut) *)\nDefinition write_timeout_error : request_error := Re{m.group(1)}.\n'
    drop = re.search(r'impl<T>\s+Drop\s+for\s+Promise<T>[^{]*\{\s*fn\s+drop\(&mut\s+self\)\s*\{\s*self\.failure\(\s*RequestError::([A-Za-z]+)\s*\)\s*;?\s*\}', msg, re.S)
    if not drop:
        raise ParseError('Promise::drop not understood')
    out += f'(* Promise::drop completes a still-pending promise with *)\nDefinition drop_error : request_error := Re{drop.group(1)}.\n'
    m = re.search(r'impl<T>\s+From<tokio::sync::mpsc::error::SendError<T>>\s+for\s+RequestError\s*\{\s*fn\s+from\([^)]*\)\s*->\s*Self\s*\{\s*RequestError::([A-Za-z]+)\s*\}', err)
    if not m:
        raise ParseError('From<SendError> for RequestError not understood')
    out += f'(* a send on a closed queue maps to *)\nDefinition send_closed_error : request_error := Re{m.group(1)}.\n'
    m = re.search(r'impl\s+From<tokio::sync::oneshot::error::RecvError>\s+for\s+RequestError\s*\{\s*fn\s+from\([^)]*\)\s*->\s*Self\s*\{\s*RequestError::([A-Za-z]+)\s*\}', err)
    if not m:
        raise ParseError('From<RecvError> for RequestError not understood')
    out += f'Definition recv_closed_error : request_error := Re{m.group(1)}.\n\n'

    # TimeoutCounter::increment
    inc = rp.find_body(task, r'fn\s+increment\s*\(\s*&mut\s+self\s*\)\s*->\s*Result<\(\),\s*SessionError>\s*\{')
    m = re.search(r'\*current\s*=\s*current\.saturating_add\(\s*1\s*\)\s*;\s*if\s+current\s*(>=|>|==)\s*max\s*\{\s*Err\(\s*SessionError::MaxTimeouts\(\s*\*max\s*\)\s*\)\s*\}\s*else\s*\{\s*Ok\(\(\)\)\s*\}', inc)
    if not m:
        raise ParseError('TimeoutCounter::increment not understood')
    op = {'>=': 'N.leb max current', '>': 'N.ltb max current', '==': 'N.eqb current max'}[m.group(1)]
    out += '(* TimeoutCounter::increment: current = current.saturating_add(1); limit reached when *)\n'
    out += f'Definition counter_limit_reached (current max : N) : bool := {op}.\n'
    rst = rp.find_body(task, r'fn\s+reset\s*\(\s*&mut\s+self\s*\)\s*\{')
    if not re.search(r'\*current\s*=\s*0\s*;', rst):
        raise ParseError('TimeoutCounter::reset not understood')
    out += 'Definition counter_reset_value : N := 0.\n\n'

    # TxId::next
    nxt = rp.find_body(frame, r'pub\(crate\)\s+fn\s+next\s*\(\s*&mut\s+self\s*\)\s*->\s*TxId\s*\{')
    m = re.search(r'if\s+self\.value\s*==\s*u16::MAX\s*\{\s*self\.value\s*=\s*0\s*;\s*TxId::new\(\s*u16::MAX\s*\)\s*\}\s*else\s*\{\s*let\s+ret\s*=\s*self\.value\s*;\s*self\.value\s*\+=\s*1\s*;\s*TxId::new\(\s*ret\s*\)\s*\}', nxt)
    if not m:
        raise ParseError('TxId::next not understood')
    out += '(* TxId::next: returns the current value; wraps to 0 after *)\nDefinition txid_max : N := 65535.\n\n'

    # ClientOptions::default
    dflt = re.search(r'impl\s+Default\s+for\s+ClientOptions\s*\{', types)
    if not dflt:
        raise ParseError('Default for ClientOptions not found')
    dbody = rp.block_after(types, dflt.end() - 1)[0]
    m = re.search(r'max_queued_requests\s*:\s*([0-9_]+)\s*,', dbody)
    t = re.search(r'max_timeouts\s*:\s*(None|Some\([^)]*\))\s*,', dbody)
    if not m or not t:
        raise ParseError('ClientOptions::default fields not understood')
    out += '(* ClientOptions::default() *)\n'
    out += f'Definition default_max_queued_requests : nat := {int(m.group(1).replace("_", ""))}.\n'
    if t.group(1) != 'None':
        raise ParseError('ClientOptions::default max_timeouts is not None')
    out += 'Definition default_max_timeouts : option N := None.\n'
    return out


# ------------------------------------------------------------------------------- ClientOptions builder (C12)
def _camel(name):
    return ''.join(p.capitalize() for p in name.split('_'))


@generator('ClientOptions.v', 'rodbus/src/types.rs', 'rodbus/src/tcp/client.rs', 'rodbus/src/tcp/tls/client.rs', 'rodbus/src/serial/client.rs')
def gen_client_options(repo):
    """Gen/ClientOptions.v: the fields of `ClientOptions`, their defaults, and for EVERY public builder method which field
    it assigns from its argument and what the struct-update base (`..<base>`) is - `self` (all other fields kept) or the
    default value (all other fields LOST).  The table records what the source says; the theorems need `self` everywhere.
    Also: where the channel constructors take the queue size, decode level and timeout limit from."""
    types = rp.read(f'{repo}/rodbus/src/types.rs')
    sbody = rp.find_body(types, r'pub\s+struct\s+ClientOptions\s*\{')
    fields = []
    for item in rp.split_top(sbody):
        item = item.strip()
        if not item:
            continue
        m = re.fullmatch(r'(?:pub(?:\([a-z]+\))?\s+)?([a-z_][a-z0-9_]*)\s*:\s*(.+)', item, re.S)
        if not m:
            raise ParseError(f'ClientOptions: field not understood: {item[:60]}')
        fields.append(m.group(1))
    if not fields:
        raise ParseError('ClientOptions: no fields')

    dflt = re.search(r'impl\s+Default\s+for\s+ClientOptions\s*\{', types)
    if not dflt:
        raise ParseError('Default for ClientOptions not found')
    dbody = rp.block_after(types, dflt.end() - 1)[0]
    m = re.fullmatch(r'\s*fn\s+default\s*\(\s*\)\s*->\s*Self\s*\{\s*Self\s*\{(.*)\}\s*\}\s*', dbody, re.S)
    if not m:
        raise ParseError('ClientOptions::default not understood')
    defaults = {}
    for item in rp.split_top(m.group(1)):
        item = item.strip()
        if not item:
            continue
        fm = re.fullmatch(r'([a-z_][a-z0-9_]*)\s*:\s*(.+)', item, re.S)
        if not fm:
            raise ParseError(f'ClientOptions::default: {item[:60]}')
        expr = fm.group(2).strip()
        if re.fullmatch(r'[0-9_]+', expr):
            val = int(expr.replace('_', ''))
        elif expr == 'None' or re.fullmatch(r'[A-Za-z]+::default\(\)', expr):
            val = 0             # code 0: None / the type's own default
        else:
            raise ParseError(f'ClientOptions::default: value of {fm.group(1)} not understood: {expr}')
        defaults[fm.group(1)] = (val, expr)
    if sorted(defaults) != sorted(fields):
        raise ParseError('ClientOptions::default does not list exactly the fields of the struct')

    im = re.search(r'impl\s+ClientOptions\s*\{', types)
    if not im:
        raise ParseError('impl ClientOptions not found')
    ibody = rp.block_after(types, im.end() - 1)[0]
    builders = []
    pos = 0
    while True:
        fm = re.compile(r'\s*(?:#\[[^\]]*\]\s*)*(pub(?:\([a-z]+\))?\s+)?fn\s+([a-z_][a-z0-9_]*)\s*\(([^)]*)\)\s*(?:->\s*([A-Za-z:<>]+)\s*)?\{').match(ibody, pos)
        if not fm:
            if ibody[pos:].strip():
                raise ParseError(f'impl ClientOptions: item not understood: {ibody[pos:].strip()[:60]}')
            break
        body, pos = rp.block_after(ibody, fm.end() - 1)
        vis, name, params, ret = fm.group(1), fm.group(2), fm.group(3), fm.group(4)
        pm = re.fullmatch(r'\s*self\s*,\s*([a-z_][a-z0-9_]*)\s*:\s*([^,]+?)\s*,?\s*', params)
        if not vis or ret != 'Self' or not pm:
            raise ParseError(f'ClientOptions::{name}: not a `pub fn {name}(self, value: T) -> Self` builder')
        arg = pm.group(1)
        bm = re.fullmatch(r'\s*Self\s*\{\s*([a-z_][a-z0-9_]*)\s*(?::\s*([a-z_][a-z0-9_]*)\s*)?,\s*\.\.\s*(self|Self::default\(\)|Default::default\(\)|ClientOptions::default\(\))\s*,?\s*\}\s*', body)
        if not bm:
            raise ParseError(f'ClientOptions::{name}: body is not `Self {{ field, ..base }}`')
        field, value, base = bm.group(1), bm.group(2) or bm.group(1), bm.group(3)
        if value != arg:
            raise ParseError(f'ClientOptions::{name}: field {field} is not assigned from the argument')
        if field not in fields:
            raise ParseError(f'ClientOptions::{name}: unknown field {field}')
        builders.append((name, field, 'BaseSelf' if base == 'self' else 'BaseDefault'))
    if not builders:
        raise ParseError('impl ClientOptions: no builder methods')

    # where the options go: the TCP / TLS channel constructors read all of them from `options`; serial has no limit
    tcp = rp.read(f'{repo}/rodbus/src/tcp/client.rs')
    tls = rp.read(f'{repo}/rodbus/src/tcp/tls/client.rs')
    ser = rp.read(f'{repo}/rodbus/src/serial/client.rs')
    for what, src in (('tcp', tcp), ('tls', tls)):
        if len(re.findall(r'tokio::sync::mpsc::channel\(\s*options\.max_queued_requests\s*\)', src)) != len(re.findall(r'mpsc::channel\(', src)):
            raise ParseError(f'{what} client: the request queue is not sized by options.max_queued_requests')
    sites = re.findall(r'ClientLoop::new\(\s*rx\s*,\s*FrameWriter::tcp\(\)\s*,\s*FramedReader::tcp\(\)\s*,\s*([^,]+?)\s*,\s*([^,]+?)\s*,?\s*\)', tcp)
    if sites != [('options.decode_level', 'options.max_timeouts')] or 'ClientLoop::new' in tls:
        raise ParseError('tcp client: ClientLoop::new does not take decode level and timeout limit from the options')
    sites = re.findall(r'ClientLoop::new\(\s*rx\s*,\s*FrameWriter::rtu\(\)\s*,\s*FramedReader::rtu_response\(\)\s*,\s*([^,]+?)\s*,\s*([^,]+?)\s*,?\s*\)', ser)
    if len(sites) != 1 or sites[0][1] != 'None':
        raise ParseError('serial client: ClientLoop::new call not understood')

    F = {f: 'F' + _camel(f) for f in fields}
    B = {b: 'B' + _camel(b) for b, _, _ in builders}
    out = '(* types.rs: struct ClientOptions *)\n'
    out += 'Inductive opt_field := ' + ' | '.join(F[f] for f in fields) + '.\n'
    out += 'Definition all_fields : list opt_field := [' + '; '.join(F[f] for f in fields) + '].\n'
    out += 'Definition field_eqb (a b : opt_field) : bool :=\n  match a, b with\n'
    out += ''.join(f'  | {F[f]}, {F[f]} => true\n' for f in fields) + '  | _, _ => false\n  end.\n'
    out += 'Definition field_name (f : opt_field) : string :=\n  match f with\n'
    out += ''.join(f'  | {F[f]} => "{f}"%string\n' for f in fields) + '  end.\n'
    out += '(* impl Default for ClientOptions, as value codes: an integer literal is itself, None and T::default() are 0 *)\n'
    out += 'Definition field_default (f : opt_field) : N :=\n  match f with\n'
    out += ''.join(f'  | {F[f]} => {defaults[f][0]}      (* {defaults[f][1]} *)\n' for f in fields) + '  end.\n\n'
    out += '(* impl ClientOptions: every method is `pub fn m(self, v: T) -> Self { Self { field: v, ..base } }` *)\n'
    out += 'Inductive builder := ' + ' | '.join(B[b] for b, _, _ in builders) + '.\n'
    out += 'Definition all_builders : list builder := [' + '; '.join(B[b] for b, _, _ in builders) + '].\n'
    out += 'Definition builder_name (b : builder) : string :=\n  match b with\n'
    out += ''.join(f'  | {B[b]} => "{b}"%string\n' for b, _, _ in builders) + '  end.\n'
    out += '(* the field assigned from the argument *)\nDefinition builder_field (b : builder) : opt_field :=\n  match b with\n'
    out += ''.join(f'  | {B[b]} => {F[f]}\n' for b, f, _ in builders) + '  end.\n'
    out += '(* the struct-update base: `..self` keeps every other field, `..Self::default()` resets every other field *)\n'
    out += 'Inductive update_base := BaseSelf | BaseDefault.\n'
    out += 'Definition builder_base (b : builder) : update_base :=\n  match b with\n'
    out += ''.join(f'  | {B[b]} => {base}\n' for b, _, base in builders) + '  end.\n\n'
    out += '(* tcp/client.rs, tcp/tls/client.rs: queue size, decode level and timeout limit all come from the options;\n   serial/client.rs: no timeout limit *)\n'
    out += 'Definition tcp_limit_field : opt_field := ' + F['max_timeouts'] + '.\n' if 'max_timeouts' in F else ''
    out += 'Definition tcp_queue_field : opt_field := ' + F['max_queued_requests'] + '.\n' if 'max_queued_requests' in F else ''
    out += 'Definition serial_limit : option N := None.\n'
    return out


# ------------------------------------------------------------------------------- where the connection is closed (C13)
def _arm_effects(expr, what, src='', depth=0):
    """the statements of one arm of `match self.client_loop.run(&mut phys).await`, in order, as effects; a call of a helper
    method `self.name().await` of the same impl is followed (its statements are the arm's statements)"""
    body = expr.strip()
    if body.startswith('{') and body.endswith('}'):
        body = body[1:-1]
    effects = []
    for stmt in [x.strip() for x in re.split(r';', body)]:
        if not stmt:
            continue
        flat = re.sub(r'\s+', '', stmt)
        if flat == 'drop(phys)':
            effects.append('FxDrop')
        elif re.fullmatch(r'self\.listener\.update\((?:ClientState|PortState)::[A-Za-z]+(?:\([a-z]*\))?\)\.get\(\)\.await', flat):
            effects.append('FxNotify')
        elif re.fullmatch(r'self\.client_loop\.fail_requests_for\(delay\)\.await', flat):
            effects.append('FxWait')
        elif re.fullmatch(r'letdelay=self\.(?:connect_retry|retry)\.after_disconnect\(\)', flat):
            pass
        elif re.match(r'(?:log_channel_event!|tracing::[a-z]+!)\(', flat):
            pass
        elif flat in ('Ok(())', 'Err(StateChange::Shutdown)'):
            pass
        elif depth == 0 and re.fullmatch(r'self\.([a-z_]+)\(\)\.await', flat):
            name = re.fullmatch(r'self\.([a-z_]+)\(\)\.await', flat).group(1)
            helper = rp.find_body(src, r'async\s+fn\s+' + name + r'\s*\(\s*&mut\s+self\s*\)\s*->\s*Result<\(\),\s*StateChange>\s*\{')
            effects += _arm_effects(helper, f'{what} ({name})', src, 1)[:-1]
        else:
            raise ParseError(f'{what}: statement not understood: {stmt[:70]}')
    return effects + ['FxScopeEnd']          # the owned PhysLayer goes out of scope when the function returns


def _scope_table(src, fn_re, what, ses_names):
    body = rp.find_body(src, fn_re)
    m = re.search(r'match\s+self\.client_loop\.run\(\s*&mut\s+phys\s*\)\s*\.await\s*\{', body)
    if not m:
        raise ParseError(f'{what}: `match self.client_loop.run(&mut phys).await` not found')
    arms = rp.match_arms(rp.block_after(body, m.end() - 1)[0])
    table = {}
    for pat, expr in arms:
        for alt in pat.split('|'):
            a = re.fullmatch(r'SessionError::([A-Za-z]+)(?:\(_\))?', alt.strip())
            if not a or a.group(1) not in ses_names:
                raise ParseError(f'{what}: arm pattern not understood: {alt.strip()}')
            table[a.group(1)] = _arm_effects(expr, what, src)
    if sorted(table) != sorted(ses_names):
        raise ParseError(f'{what}: the arms do not cover SessionError exactly')
    return table


@generator('ClientScope.v', 'rodbus/src/tcp/client.rs', 'rodbus/src/serial/client.rs', 'rodbus/src/client/task.rs')
def gen_client_scope(repo):
    """Gen/ClientScope.v: the order of effects after `ClientLoop::run` returned - where the PhysLayer (the socket / the
    port) is dropped relative to the listener notifications.  run_connection (TCP, TLS) and try_open_and_run (serial) own
    the PhysLayer: what each arm does until the function returns is recorded; the notifications made by the callers
    (run_inner: Disabled, run: Shutdown) must come after the call has returned."""
    task = rp.read(f'{repo}/rodbus/src/client/task.rs')
    ses_names = [n for n, _ in _variants(rp.find_body(task, r'pub\(crate\)\s+enum\s+SessionError\s*\{'), 'SessionError')]
    out = 'From Rodbus Require Import Gen.SessionErrors.\n\n(* what an arm of `match self.client_loop.run(&mut phys).await` does, in order, until the owner of the PhysLayer returns *)\n'
    out += 'Inductive scope_effect := FxDrop | FxNotify | FxWait | FxScopeEnd.\n'
    for name, path, fn_re, call in (
            ('tcp', 'rodbus/src/tcp/client.rs', r'async\s+fn\s+run_connection\s*\(\s*&mut\s+self\s*,\s*mut\s+phys\s*:\s*PhysLayer\s*\)[^{]*\{', 'try_connect_and_run'),
            ('serial', 'rodbus/src/serial/client.rs', r'pub\(crate\)\s+async\s+fn\s+try_open_and_run\s*\(\s*&mut\s+self\s*\)[^{]*\{', 'try_open_and_run')):
        src = rp.read(f'{repo}/{path}')
        table = _scope_table(src, fn_re, f'{name} client', ses_names)
        # the callers: run_inner notifies Disabled only after the call returned; run notifies Shutdown after run_inner returned
        inner = rp.find_body(src, r'async\s+fn\s+run_inner\s*\(\s*&mut\s+self\s*\)\s*->\s*Shutdown\s*\{')
        if not re.search(r'if\s+let\s+Err\(\s*StateChange::Shutdown\s*\)\s*=\s*self\.' + call + r'\(\)\s*\.await\s*\{\s*return\s+Shutdown\s*;\s*\}\s*'
                         r'if\s+!\s*self\.client_loop\.is_enabled\(\)\s*\{\s*self\.listener\.update\(\s*(?:ClientState|PortState)::Disabled\s*\)\s*\.get\(\)\s*\.await\s*;\s*\}', inner):
            raise ParseError(f'{name} client: run_inner does not report Disabled after {call}() has returned')
        run = rp.find_body(src, r'pub\(crate\)\s+async\s+fn\s+run\s*\(\s*&mut\s+self\s*\)\s*->\s*Shutdown\s*\{')
        if not re.search(r'let\s+ret\s*=\s*self\.run_inner\(\)\s*\.await\s*;\s*self\.listener\.update\(\s*(?:ClientState|PortState)::Shutdown\s*\)\s*\.get\(\)\s*\.await\s*;\s*ret', run):
            raise ParseError(f'{name} client: run does not report Shutdown after run_inner() has returned')
        out += f'(* {path} *)\nDefinition {name}_arm (e : session_error) : list scope_effect :=\n  match e with\n'
        out += ''.join(f'  | Se{n} => [{"; ".join(table[n])}]\n' for n in ses_names) + '  end.\n'
    return out
