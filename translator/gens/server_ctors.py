"""Generator for Gen/ServerCtors.v (C16): how every server constructor hands the caller's address
filter down to the TCP server task, the shape of the accept arm that applies it, and the call sites
through which a session / TLS handshake can be started.

Everything here is syntactic and deliberately narrow: any construct outside the handful of shapes
recognised below raises ParseError (the theorems importing the file then lose their tie loudly).
"""
import re
import rustparse as rp
from rustparse import ParseError
from registry import generator

SINK = 'rodbus::tcp::server::ServerTask::new'


def coq_str(s):
    return '"' + ' '.join(s.split()).replace('"', '""') + '"'


def matching(src, i, open_ch, close_ch):
    """index just after the bracket that closes src[i] == open_ch"""
    assert src[i] == open_ch
    depth = 0
    for j in range(i, len(src)):
        if src[j] == open_ch:
            depth += 1
        elif src[j] == close_ch:
            depth -= 1
            if depth == 0:
                return j + 1
    raise ParseError('unbalanced ' + open_ch)


_FN = re.compile(r'\bfn\s+([A-Za-z_][A-Za-z0-9_]*)\s*(<[^>(]*>)?\s*\(')


def functions(src):
    """all fn items with a body: dicts name, params [(name, type)], body, span (of the body), attrs, vis"""
    res = []
    for m in _FN.finditer(src):
        p_open = m.end() - 1
        p_close = matching(src, p_open, '(', ')')
        # find the body: next '{' before any ';' at depth 0 (a `;` first means a declaration without body)
        k = p_close
        while k < len(src) and src[k] not in '{;':
            k += 1
        if k >= len(src) or src[k] == ';':
            continue
        b_close = matching(src, k, '{', '}')
        params = []
        for p in rp.split_top(src[p_open + 1:p_close - 1]):
            if not p or p in ('self', '&self', '&mut self', 'mut self'):
                continue
            if ':' not in p:
                raise ParseError(f'parameter without type in fn {m.group(1)}: {p}')
            n, t = p.split(':', 1)
            params.append((n.strip().replace('mut ', ''), ' '.join(t.split())))
        # attributes and visibility: text between the previous item end and `fn`
        line_start = src.rfind('\n', 0, m.start()) + 1
        prefix = src[line_start:m.start()]
        attrs = []
        j = line_start
        while True:
            prev_end = j - 1
            prev_start = src.rfind('\n', 0, max(prev_end, 0)) + 1
            line = src[prev_start:prev_end].strip()
            if prev_end > 0 and line.startswith('#['):
                attrs.insert(0, line)
                j = prev_start
            else:
                break
        res.append({'name': m.group(1), 'params': params, 'body': src[k + 1:b_close - 1], 'span': (k, b_close),
                    'attrs': attrs, 'prefix': prefix.strip()})
    return res


def cfg_disabled(fn):
    """functions compiled only when a feature the harness enables is OFF"""
    for a in fn['attrs']:
        if re.fullmatch(r'#\[cfg\(not\(feature\s*=\s*"(enable-tls|tls|serial)"\)\)\]', a):
            return True
    return False


def has_filter(fn):
    return any(n in ('filter', '_filter') and 'AddressFilter' in t for n, t in fn['params'])


def filter_index(fn):
    for i, (n, t) in enumerate(fn['params']):
        if n in ('filter', '_filter') and 'AddressFilter' in t:
            return i
    return None


ALLOWED_REBIND = re.compile(r'let\s+filter\s*=\s*filter\s*\.\s*as_ref\s*\(\s*\)\s*\.\s*ok_or\s*\(\s*ffi::ParamError::NullParameter\s*\)\s*\?\s*;')


def check_rebinding(fn, where):
    body = ALLOWED_REBIND.sub('', fn['body'])
    if re.search(r'\blet\s+(mut\s+)?filter\b', body) or re.search(r'\bfilter\s*=[^=]', body):
        raise ParseError(f'{where}::{fn["name"]}: `filter` is rebound / assigned in a way the translator does not model')


def classify_arg(e):
    e = ''.join(e.split())
    if e in ('filter', 'filter.into()'):
        return 'Forwarded'
    if e in ('AddressFilter::Any', 'rodbus::server::AddressFilter::Any', 'crate::server::AddressFilter::Any'):
        return 'ConstAny'
    return 'OtherExpr ' + coq_str(e)


def calls_in(body, callee_re):
    """[(matched callee text, [args])] for every call whose callee matches callee_re"""
    out = []
    for m in re.finditer(r'(?<![\w.])(' + callee_re + r')\s*\(', body):
        close = matching(body, m.end() - 1, '(', ')')
        out.append((m.group(1), rp.split_top(body[m.end():close - 1])))
    return out


@generator('ServerCtors.v', 'rodbus/src/server/mod.rs', 'rodbus/src/tcp/server.rs', 'ffi/rodbus-ffi/src/server.rs')
def gen_server_ctors(repo):
    mod_src = rp.read(f'{repo}/rodbus/src/server/mod.rs')
    tcp_src = rp.read(f'{repo}/rodbus/src/tcp/server.rs')
    ffi_src = rp.read(f'{repo}/ffi/rodbus-ffi/src/server.rs')

    # ---- the sink: ServerTask::new in tcp/server.rs stores its `filter` parameter in the field `filter`
    tcp_fns = functions(tcp_src)
    news = [f for f in tcp_fns if f['name'] == 'new' and has_filter(f)]
    if len(news) != 1:
        raise ParseError(f'tcp/server.rs: expected exactly one fn new(.. filter: AddressFilter ..), found {len(news)}')
    sink = news[0]
    m = re.search(r'\bSelf\s*\{', sink['body'])
    if not m:
        raise ParseError('tcp/server.rs ServerTask::new: no `Self { .. }` literal')
    lit = sink['body'][m.end():matching(sink['body'], m.end() - 1, '{', '}') - 1]
    fields = [' '.join(x.split()) for x in rp.split_top(lit)]
    stores = ('filter' in fields) or ('filter: filter' in fields)
    # anything that rebinds / assigns `filter` between the parameter and the struct literal transforms what the accept loop will consult
    sink_rebinds = [' '.join(x.group(0).split()) for x in re.finditer(r'\blet\s+(?:mut\s+)?filter\b[^;]*;|(?<![\w.])filter\s*=[^=][^;]*;', sink['body'][:m.start()])]
    sink_field_expr = next((f for f in fields if f == 'filter' or f.startswith('filter:')), '')
    if not re.search(r'use\s+crate::tcp::server::\{[^}]*\bServerTask\s+as\s+TcpServerTask\b', mod_src):
        raise ParseError('server/mod.rs: `use crate::tcp::server::{ServerTask as TcpServerTask, ..}` not found')

    # ---- constructors in rodbus/src/server/mod.rs
    mod_fns = [f for f in functions(mod_src) if not cfg_disabled(f)]
    mod_ctor = {f['name']: f for f in mod_fns if has_filter(f)}
    if not mod_ctor:
        raise ParseError('server/mod.rs: no function takes an AddressFilter')
    calls = []      # (caller, callee, arg)
    public = []
    for name, f in mod_ctor.items():
        check_rebinding(f, 'server/mod.rs')
        qual = 'rodbus::server::' + name
        if f['prefix'].startswith('pub ') or f['prefix'] == 'pub':
            public.append(qual)
        found = 0
        names_re = '|'.join(sorted((re.escape(n) for n in mod_ctor if n != name), key=len, reverse=True))
        pats = [(r'TcpServerTask::new', None)]
        if names_re:
            pats.append((names_re, 'local'))
        for pat, kind in pats:
            for callee, args in calls_in(f['body'], pat):
                if kind is None:
                    idx, cname = filter_index(sink), SINK
                else:
                    idx, cname = filter_index(mod_ctor[callee]), 'rodbus::server::' + callee
                if idx >= len(args):
                    raise ParseError(f'server/mod.rs::{name}: call of {callee} has {len(args)} arguments, filter is #{idx}')
                calls.append((qual, cname, classify_arg(args[idx])))
                found += 1
        if found == 0:
            calls.append((qual, '(no constructor called)', 'OtherExpr ' + coq_str('filter parameter is not handed to any server constructor')))

    # ---- constructors in ffi/rodbus-ffi/src/server.rs
    ffi_fns = [f for f in functions(ffi_src) if not cfg_disabled(f)]
    ffi_ctor = {}
    for f in ffi_fns:
        if has_filter(f):
            if f['name'] in ffi_ctor:
                raise ParseError(f'ffi server.rs: two enabled definitions of {f["name"]}')
            ffi_ctor[f['name']] = f
    if not ffi_ctor:
        raise ParseError('ffi server.rs: no function takes an AddressFilter')
    called_locally = set()
    for name, f in ffi_ctor.items():
        check_rebinding(f, 'ffi/server.rs')
        qual = 'rodbus_ffi::' + name
        found = 0
        for callee, args in calls_in(f['body'], r'rodbus::server::(?:spawn|create)_\w+'):
            short = callee.split('::')[-1]
            if short not in mod_ctor:
                if 'rtu' in short:
                    continue
                raise ParseError(f'ffi server.rs::{name}: calls {callee}, which takes no filter in server/mod.rs')
            idx = filter_index(mod_ctor[short])
            if idx >= len(args):
                raise ParseError(f'ffi server.rs::{name}: call of {callee} has {len(args)} arguments, filter is #{idx}')
            calls.append((qual, callee, classify_arg(args[idx])))
            found += 1
        names_re = '|'.join(sorted((re.escape(n) for n in ffi_ctor if n != name), key=len, reverse=True))
        if names_re:
            for callee, args in calls_in(f['body'], names_re):
                idx = filter_index(ffi_ctor[callee])
                if idx >= len(args):
                    raise ParseError(f'ffi server.rs::{name}: call of {callee} has {len(args)} arguments, filter is #{idx}')
                calls.append((qual, 'rodbus_ffi::' + callee, classify_arg(args[idx])))
                called_locally.add(callee)
                found += 1
        if found == 0:
            calls.append((qual, '(no constructor called)', 'OtherExpr ' + coq_str('filter parameter is not handed to any server constructor')))
    for name in ffi_ctor:
        if name not in called_locally:
            public.append('rodbus_ffi::' + name)

    # ---- From<&ffi AddressFilter> for rodbus::server::AddressFilter
    conv_body = rp.find_body(ffi_src, r'impl\s+From<&AddressFilter>\s+for\s+rodbus::server::AddressFilter\s*\{')
    conv = []
    for pat, expr in rp.match_arms(rp.first_match_body(conv_body)):
        mp = re.fullmatch(r'AddressFilter::(\w+)(?:\(\s*(\w+)\s*\))?', pat)
        me = re.fullmatch(r'rodbus::server::AddressFilter::(\w+)(?:\(\s*(.*?)\s*\))?', expr, re.S)
        if not mp or not me:
            raise ParseError(f'ffi AddressFilter conversion arm not understood: {pat} => {expr}')
        var, payload = mp.group(2), me.group(2)
        target = me.group(1)
        ok_payload = (var is None and payload is None) or (var is not None and payload is not None and
                                                           ''.join(payload.split()) in (var + '.clone()', '*' + var, var))
        if not ok_payload:
            target += '(' + ' '.join((payload or '').split()) + ')'
        conv.append((mp.group(1), target))

    # ---- accept arm of ServerTask::run
    runs = [f for f in tcp_fns if f['name'] == 'run' and 'self.listener.accept()' in f['body']]
    if len(runs) != 1:
        raise ParseError('tcp/server.rs: accept loop `fn run` not found')
    run = runs[0]
    m = re.search(r'Ok\s*\(\s*\(\s*socket\s*,\s*addr\s*\)\s*\)\s*=>\s*\{', run['body'])
    if not m:
        raise ParseError('tcp/server.rs run: arm `Ok((socket, addr)) => {` not found')
    arm_end = matching(run['body'], m.end() - 1, '{', '}')
    arm = run['body'][m.end():arm_end - 1].strip()
    arm_abs = run['span'][0] + 1 + m.end()      # absolute offset of the arm body in tcp_src (approximate start)

    def call_list(block):
        out = []
        for c in re.finditer(r'([A-Za-z_][\w:.]*!?)\s*\(', block):
            name = c.group(1)
            if name in ('Err', 'Ok', 'Some', 'addr.ip', 'if', 'let'):
                continue
            if name == 'socket.set_nodelay':
                out.append('CallSetNodelay')
            elif name == 'self.handle':
                out.append('CallHandle')
            elif re.fullmatch(r'tracing::(trace|debug|info|warn|error)!', name):
                out.append('CallLog')
            else:
                out.append('CallOther ' + coq_str(name))
        return out

    guard = re.match(r'if\s+self\s*\.\s*filter\s*\.\s*matches\s*\(\s*addr\s*\.\s*ip\s*\(\s*\)\s*\)\s*\{', arm)
    guarded_span = None
    if guard:
        t_end = matching(arm, guard.end() - 1, '{', '}')
        then_b = arm[guard.end():t_end - 1]
        rest = arm[t_end:].strip()
        me = re.match(r'else\s*\{', rest)
        if me:
            e_end = matching(rest, me.end() - 1, '{', '}')
            else_b = rest[me.end():e_end - 1]
            tail = rest[e_end:].strip()
        else:
            else_b, tail = '', rest
        if tail:
            # statements after the if: they run for every peer
            shape = 'Unguarded [' + '; '.join(call_list(arm)) + ']'
        else:
            else_calls = call_list(else_b)
            # the macro arguments of the log line may mention addr / self.filter, never the socket
            if re.search(r'\bsocket\b', else_b):
                else_calls.append('CallOther "socket"')
            shape = 'IfMatches [' + '; '.join(call_list(then_b)) + '] [' + '; '.join(else_calls) + ']'
            # absolute span of the then-block, for the guarded flag of call sites
            base = tcp_src.find(arm[:60])
            if base < 0:
                raise ParseError('internal: cannot locate the accept arm')
            guarded_span = (base + guard.end(), base + t_end)
    else:
        shape = 'Unguarded [' + '; '.join(call_list(arm)) + ']'

    # ---- the guard of the accept arm: condition of its first `if`, split at top-level `&&`; which branch serves
    guard_conj, guard_kind = [], 'GuardUnknown'
    mif = re.match(r'if\b', arm)
    if mif:
        depth, pos = 0, mif.end()
        while pos < len(arm) and not (arm[pos] == '{' and depth == 0):
            depth += arm[pos] in '(['
            depth -= arm[pos] in ')]'
            pos += 1
        if pos >= len(arm):
            raise ParseError('tcp/server.rs run: accept arm: `if` without a block')
        cond = arm[mif.end():pos]
        parts, depth, cur, k = [], 0, '', 0
        while k < len(cond):
            ch = cond[k]
            depth += ch in '(['
            depth -= ch in ')]'
            if depth == 0 and cond.startswith('&&', k):
                parts.append(cur)
                cur, k = '', k + 2
                continue
            cur += ch
            k += 1
        parts.append(cur)
        for part in parts:
            t = ''.join(part.split())
            if t == 'self.filter.matches(addr.ip())':
                guard_conj.append('GMatches')
            elif t == '!self.filter.matches(addr.ip())':
                guard_conj.append('GNotMatches')
            else:
                guard_conj.append('GOther ' + coq_str(t))
        b_end = matching(arm, pos, '{', '}')
        g_then = arm[pos + 1:b_end - 1]
        g_rest = arm[b_end:].strip()
        g_else = ''
        mel = re.match(r'else\s*\{', g_rest)
        if mel:
            e_end2 = matching(g_rest, mel.end() - 1, '{', '}')
            g_else, g_rest = g_rest[mel.end():e_end2 - 1], g_rest[e_end2:].strip()
        handles = lambda b: re.search(r'self\s*\.\s*handle\s*\(', b) is not None
        if handles(g_then) and not handles(g_else) and not handles(g_rest):
            guard_kind = 'ServeInThen'
        elif (not handles(g_then) and not mel and handles(g_rest) and re.search(r'\b(continue|return)\b', g_then)
              and not re.search(r'\bsocket\b', g_then)):
            guard_kind = 'RejectInThen'

    # ---- call sites of everything that starts serving a connection
    interest = [
        ('handle', r'self\s*\.\s*handle\s*\('),
        ('run_session', r'(?<!fn\s)\brun_session\s*\('),
        ('tokio::spawn', r'tokio::spawn\s*\('),
        ('conn_handler.handle', r'\bhandler\s*\.\s*handle\s*\(\s*socket\s*\)'),
        ('tls_handshake', r'\.\s*handle_connection\s*\('),
        ('SessionTask::new', r'SessionTask::new\s*\('),
    ]
    test_mod = re.search(r'#\[cfg\(test\)\]\s*mod\s+tests', tcp_src)
    limit = test_mod.start() if test_mod else len(tcp_src)

    def enclosing(pos):
        best = None
        for f in tcp_fns:
            a, b = f['span']
            if a <= pos < b and (best is None or a > best['span'][0]):
                best = f
        if best is None:
            raise ParseError('call outside any function')
        # TcpServerConnectionHandler::handle vs ServerTask::handle: tell apart by the parameter list
        if best['name'] == 'handle':
            pnames = [n for n, _ in best['params']]
            return 'conn_handler.handle' if pnames == ['socket'] else 'handle'
        return best['name']
    sites = []
    for callee, pat in interest:
        n = 0
        for c in re.finditer(pat, tcp_src[:limit]):
            # skip the definition `fn run_session(`
            if re.search(r'fn\s+$', tcp_src[max(0, c.start() - 4):c.start()]):
                continue
            caller = enclosing(c.start())
            guarded = bool(guarded_span and guarded_span[0] <= c.start() < guarded_span[1])
            sites.append((callee, caller, guarded))
            n += 1
        if n == 0:
            raise ParseError(f'tcp/server.rs: no call site of {callee} found (code restructured?)')

    out = 'Local Open Scope string_scope.\n\n'
    out += '(* the expression a constructor passes in the filter-argument position of the constructor it calls *)\n'
    out += 'Inductive filter_arg := Forwarded | ConstAny | OtherExpr (e : string).\n'
    out += 'Record ctor_call := { cc_caller : string; cc_callee : string; cc_arg : filter_arg }.\n'
    out += f'Definition ctor_sink : string := {coq_str(SINK)}.\n'
    out += f'(* ServerTask::new stores its `filter` parameter in the field `filter` that the accept arm consults *)\n'
    out += f'Definition sink_stores_filter : bool := {"true" if stores else "false"}.\n'
    out += '(* ... and between the parameter list and that struct literal nothing rebinds or assigns `filter`: every such statement is listed here *)\n'
    out += 'Definition sink_filter_rebindings : list string := [' + '; '.join(coq_str(x) for x in sink_rebinds) + '].\n'
    out += f'Definition sink_filter_field : string := {coq_str(sink_field_expr)}.\n'
    out += 'Definition ctor_calls : list ctor_call := [\n'
    out += ';\n'.join(f'  {{| cc_caller := {coq_str(a)}; cc_callee := {coq_str(b)}; cc_arg := {c} |}}' for a, b, c in calls)
    out += '\n].\n'
    fns = []
    for a, _, _ in calls:
        if a not in fns:
            fns.append(a)
    out += '(* every function of server/mod.rs and ffi/server.rs that takes an AddressFilter *)\n'
    out += 'Definition ctor_fns : list string := [' + '; '.join(coq_str(x) for x in fns) + '].\n'
    out += '(* the entry points among them: `pub` in rodbus, not called by another ffi function in rodbus-ffi *)\n'
    out += 'Definition public_ctors : list string := [' + '; '.join(coq_str(x) for x in public) + '].\n\n'
    out += '(* impl From<&AddressFilter> for rodbus::server::AddressFilter: (C-side variant, Rust variant) *)\n'
    out += 'Definition ffi_filter_conversion : list (string * string) := [' + '; '.join(f'({coq_str(a)}, {coq_str(b)})' for a, b in conv) + '].\n\n'
    out += '(* tcp/server.rs ServerTask::run, arm `Ok((socket, addr)) =>` of listener.accept() *)\n'
    out += 'Inductive accept_call := CallSetNodelay | CallHandle | CallLog | CallOther (e : string).\n'
    out += 'Inductive accept_shape :=\n| IfMatches (then_ else_ : list accept_call)   (* if self.filter.matches(addr.ip()) { then_ } else { else_ } and nothing else *)\n| Unguarded (calls : list accept_call).\n'
    out += f'Definition accept_arm : accept_shape := {shape}.\n'
    out += 'Definition accept_fn : string := "run".\n\n'
    out += ('(* the guard of that arm: the condition of its first `if`, split at top-level && (whitespace removed); GOther = a conjunct that is\n'
            '   not the filter test, i.e. the decision may depend on something else than (filter, peer address). guard_kind: the connection is\n'
            '   served (self.handle) in the then-block and nowhere else / the then-block turns the peer away (continue / return, socket unused)\n'
            '   and self.handle follows the `if` / neither *)\n')
    out += 'Inductive guard_conjunct := GMatches | GNotMatches | GOther (e : string).\n'
    out += 'Inductive guard_kind := ServeInThen | RejectInThen | GuardUnknown.\n'
    out += 'Definition accept_guard : list guard_conjunct := [' + '; '.join(guard_conj) + '].\n'
    out += f'Definition accept_guard_kind : guard_kind := {guard_kind}.\n\n'
    out += '(* every call site in tcp/server.rs of the functions through which a connection gets served;\n   cs_guarded = the call is inside the then-block of the filter guard of the accept arm *)\n'
    out += 'Record call_site := { cs_callee : string; cs_caller : string; cs_guarded : bool }.\n'
    out += 'Definition call_sites : list call_site := [\n'
    out += ';\n'.join(f'  {{| cs_callee := {coq_str(a)}; cs_caller := {coq_str(b)}; cs_guarded := {"true" if g else "false"} |}}' for a, b, g in sites)
    out += '\n].\n'
    return out
