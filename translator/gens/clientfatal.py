"""Generator for Gen/ClientFatal.v: client/task.rs SessionError::from_request_err, at the granularity C05 needs:
for EVERY FrameParseError variant (error.rs) whether a request that fails with BadFrame(variant) also ends the
client session, and the same for Io. Arms are matched first-to-last as Rust does; nested or-patterns of
FrameParseError variants are understood; anything else raises ParseError."""
import re
import rustparse as rp
from rustparse import ParseError
from registry import generator


@generator('ClientFatal.v', 'rodbus/src/client/task.rs', 'rodbus/src/error.rs')
def gen_client_fatal(repo):
    task = rp.read(f'{repo}/rodbus/src/client/task.rs')
    err = rp.read(f'{repo}/rodbus/src/error.rs')
    variants = []
    for item in rp.split_top(rp.find_body(err, r'pub\s+enum\s+FrameParseError\s*\{')):
        m = re.match(r'(?:#\[[^\]]*\]\s*)*([A-Za-z]+)', item.strip())
        if item.strip():
            if not m:
                raise ParseError('FrameParseError variant not understood: ' + item[:60])
            variants.append(m.group(1))
    body = rp.find_body(task, r'pub\(crate\)\s+fn\s+from_request_err\s*\(\s*err\s*:\s*RequestError\s*\)\s*->\s*Option<Self>\s*\{')
    fatal = {}            # FrameParseError variant -> bool, first matching arm wins
    io_fatal = None
    for pat, expr in rp.match_arms(rp.first_match_body(body)):
        pat = ' '.join(pat.split())
        if expr == 'None':
            ends = False
        elif re.fullmatch(r'Some\(\s*SessionError::[A-Za-z]+\s*(?:\([^)]*\))?\s*\)', expr):
            ends = True
        else:
            raise ParseError('from_request_err: arm result not understood: ' + expr[:60])
        if pat == '_':
            for v in variants:
                fatal.setdefault(v, ends)
            if io_fatal is None:
                io_fatal = ends
            continue
        if re.fullmatch(r'RequestError::Io\(\w+\)', pat):
            if io_fatal is None:
                io_fatal = ends
            continue
        m = re.fullmatch(r'RequestError::BadFrame\((.*)\)', pat)
        if m:
            inner = m.group(1).strip().rstrip(',').strip()
            if inner == '_' or re.fullmatch(r'\w+', inner):
                for v in variants:
                    fatal.setdefault(v, ends)
                continue
            for alt in inner.split('|'):
                a = re.fullmatch(r'FrameParseError::([A-Za-z]+)\s*(?:\([^)]*\))?', alt.strip())
                if not a or a.group(1) not in variants:
                    raise ParseError('from_request_err: BadFrame pattern not understood: ' + alt.strip()[:60])
                fatal.setdefault(a.group(1), ends)
            continue
        if re.fullmatch(r'RequestError::[A-Za-z]+\s*(?:\([^)]*\))?', pat):
            continue                                  # another RequestError kind: not a framing error
        raise ParseError('from_request_err: pattern not understood: ' + pat[:80])
    missing = [v for v in variants if v not in fatal]
    if missing or io_fatal is None:
        raise ParseError('from_request_err: no arm covers ' + ','.join(missing or ['Io']))
    out = '(* error.rs: enum FrameParseError (payloads dropped) *)\n'
    out += 'Inductive frame_error_kind := ' + ' | '.join('Fk' + v for v in variants) + '.\n'
    out += '(* client/task.rs SessionError::from_request_err: does a request error BadFrame(kind) also end the client session? *)\n'
    out += 'Definition frame_error_ends_session (k : frame_error_kind) : bool :=\n  match k with\n'
    out += ''.join(f'  | Fk{v} => {"true" if fatal[v] else "false"}\n' for v in variants) + '  end.\n'
    out += f'Definition io_error_ends_session : bool := {"true" if io_fatal else "false"}.\n'
    return out
