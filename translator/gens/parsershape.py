"""Generator for Gen/ParserShape.v: the SKELETON of the two frame parsers - which reads, checks and
state changes happen, in which order - extracted statement by statement from tcp/frame.rs
(MbapParser::parse_header / parse_body / parse) and serial/frame.rs (RtuParser::parse).
Every statement of those functions must be recognised; anything else raises ParseError.
Proofs/ShapeProofs.v shows that the hand-written parsers of the model are the interpretation of
these step lists, so a re-ordered or dropped check in the code breaks a regenerated theorem."""
import re
import rustparse as rp
from rustparse import ParseError
from registry import generator


def statements(body):
    """split a block body into top-level statements: `...;` or a block statement `if .. { .. }` / `match .. { .. }`
    without semicolon; the trailing expression (no `;`) is the last element"""
    out, depth, cur = [], 0, ''
    i = 0
    while i < len(body):
        ch = body[i]
        if ch in '([{':
            depth += 1
        elif ch in ')]}':
            depth -= 1
        cur += ch
        if depth == 0:
            if ch == ';':
                out.append(cur.strip()[:-1].strip())
                cur = ''
            elif ch == '}' and re.match(r'\s*(if|match|loop)\b', cur):
                # a block statement ends here unless an `else` follows
                rest = body[i + 1:]
                if not re.match(r'\s*else\b', rest):
                    out.append(cur.strip())
                    cur = ''
        i += 1
    if cur.strip():
        out.append(cur.strip())
    return [' '.join(s.split()) for s in out if s.strip()]


def classify(stmt, rules, where):
    for rx, tag in rules:
        if re.fullmatch(rx, stmt):
            return tag
    raise ParseError(f'{where}: statement not recognised: {stmt[:120]}')


def arm_block(expr):
    e = expr.strip()
    if e.startswith('{') and e.endswith('}'):
        return e[1:-1]
    return e


LOG = r'if decode_level\.enabled\(\) \{ tracing::info!\(.*\) ?; ?\}'

MBAP_HEADER_RULES = [
    (r'let tx_id = TxId::new\(cursor\.read_u16_be\(\)\?\)', 'HRead FTxId'),
    (r'let protocol_id = cursor\.read_u16_be\(\)\?', 'HRead FProtocolId'),
    (r'let len_field = cursor\.read_u16_be\(\)\?', 'HRead FLength'),
    (r'let length = len_field as usize', None),
    (r'let unit_id = UnitId::new\(cursor\.read_u8\(\)\?\)', 'HRead FUnitId'),
    (r'if protocol_id != 0 \{ return Err\(FrameParseError::UnknownProtocolId\(protocol_id\)\.into\(\)\); \}', 'HCheck ChkProtocolId'),
    (r'if length > constants::MAX_LENGTH_FIELD \{ return Err\( ?FrameParseError::FrameLengthTooBig\(length, constants::MAX_LENGTH_FIELD\)\.into\(\),? ?\); \}', 'HCheck ChkLengthTooBig'),
    (r'let adu_length = length \.checked_sub\(1\) \.ok_or\(FrameParseError::MbapLengthZero\)\?', 'HCheck ChkLengthZero'),
    (r'Ok\(\( MbapHeader \{ tx_id, len_field, unit_id, \}, adu_length, \)\)', 'HReturn'),
]
MBAP_BODY_RULES = [
    (r'let mut frame = Frame::new\(FrameHeader::new_tcp_header\(header\.unit_id, header\.tx_id\)\)', None),
    (r'frame\.set\(cursor\.read\(adu_length\)\?\)', 'BReadAdu'),
    (r'Ok\(frame\)', 'BReturn'),
]
MBAP_HEADER_ARM_RULES = [
    (r'if cursor\.len\(\) < adu_length \{ return Ok\(None\); \}', 'PNeedBody'),
    (r'let frame = Self::parse_body\(&header, adu_length, cursor\)\?', 'PParseBody'),
    (r'self\.state = ParseState::Begin', 'PGotoBegin'),
    (LOG, None),
    (r'return Ok\(Some\(frame\)\)', 'PReturnFrame'),
]
MBAP_BEGIN_ARM_RULES = [
    (r'if cursor\.len\(\) < constants::HEADER_LENGTH \{ return Ok\(None\); \}', 'PNeedHeader'),
    (r'let \(header, adu_len\) = Self::parse_header\(cursor\)\?', 'PParseHeader'),
    (r'self\.state = ParseState::Header\(header, adu_len\)', 'PGotoHeader'),
]

RTU_START_RULES = [
    (r'if cursor\.len\(\) < 2 \{ return Ok\(None\); \}', 'RNeedTwo'),
    (r'let unit_id = UnitId::new\(cursor\.read_u8\(\)\?\)', 'RReadAddress'),
    (r'let destination = if unit_id == UnitId::broadcast\(\) \{ FrameDestination::Broadcast \} else \{ FrameDestination::UnitId\(unit_id\) \}', None),
    (r'if unit_id\.is_rtu_reserved\(\) \{ tracing::warn!\(.*\); \}', None),
    (r'let raw_function_code = cursor\.peek_at\(0\)\?', 'RPeekFunction'),
    (r'self\.state = match self\.length_mode\(raw_function_code\) \{ LengthMode::Fixed\(length\) => ParseState::(\w+)\(destination, length\), LengthMode::Offset\(offset\) => \{ ParseState::(\w+)\(destination, offset\) \} LengthMode::Unknown => \{ return Err\(RequestError::BadFrame\( FrameParseError::UnknownFunctionCode\(raw_function_code\), \)\) \} \}', 'RDISPATCH'),
    (r'self\.parse\(cursor, decode_level\)', 'RRecurse'),
]
RTU_OFFSET_RULES = [
    (r'if cursor\.len\(\) < constants::FUNCTION_CODE_LENGTH \+ offset \{ return Ok\(None\); \}', 'RNeedOffset'),
    (r'let extra_bytes_to_read = cursor\.peek_at\(constants::FUNCTION_CODE_LENGTH \+ offset - 1\)\? as usize', 'RPeekCount'),
    (r'self\.state = ParseState::ReadFullBody\(destination, offset \+ extra_bytes_to_read\)', 'RGotoFull'),
    (r'self\.parse\(cursor, decode_level\)', 'RRecurse'),
]
RTU_FULL_RULES = [
    (r'if constants::FUNCTION_CODE_LENGTH \+ length > crate::common::frame::constants::MAX_ADU_LENGTH \{ return Err\(RequestError::BadFrame\(FrameParseError::FrameLengthTooBig\( constants::FUNCTION_CODE_LENGTH \+ length, crate::common::frame::constants::MAX_ADU_LENGTH, \)\)\); \}', 'FTooBig'),
    (r'if cursor\.len\(\) < constants::FUNCTION_CODE_LENGTH \+ length \+ constants::CRC_LENGTH \{ return Ok\(None\); \}', 'FNeed'),
    (r'let frame = \{ let data = cursor\.read\(constants::FUNCTION_CODE_LENGTH \+ length\)\?; let mut frame = Frame::new\(FrameHeader::new_rtu_header\(destination\)\); frame\.set\(data\); frame \}', 'FReadBody'),
    (r'let received_crc = cursor\.read_u16_le\(\)\?', 'FReadCrc'),
    (r'let expected_crc = \{ let mut digest = CRC\.digest\(\); digest\.update\(&\[destination\.value\(\)\]\); digest\.update\(frame\.payload\(\)\); digest\.finalize\(\) \}', 'FComputeCrc'),
    (r'if received_crc != expected_crc \{ return Err\(RequestError::BadFrame\( FrameParseError::CrcValidationFailure\(received_crc, expected_crc\), \)\); \}', 'FCompare'),
    (r'if decode_level\.enabled\(\) \{ tracing::info!\(.*\); \}', None),
    (r'self\.state = ParseState::Start', 'FGotoStart'),
    (r'Ok\(Some\(frame\)\)', 'FReturn'),
]


def steps_of(body, rules, where):
    res = []
    for st in statements(body):
        tag = classify(st, rules, where)
        if tag is not None:
            res.append((tag, st))
    return res


def coq_list(tags):
    return '[' + '; '.join(tags) + ']'


@generator('ParserShape.v', 'rodbus/src/tcp/frame.rs', 'rodbus/src/serial/frame.rs')
def gen_parser_shape(repo):
    tsrc = rp.read(f'{repo}/rodbus/src/tcp/frame.rs')
    ssrc = rp.read(f'{repo}/rodbus/src/serial/frame.rs')
    out = ''
    # ---- MBAP
    hdr = steps_of(rp.find_body(tsrc, r'fn\s+parse_header\s*\(\s*cursor\s*:\s*&mut\s+ReadBuffer\s*\)\s*->\s*Result<\(MbapHeader,\s*usize\),\s*RequestError>\s*\{'),
                   MBAP_HEADER_RULES, 'tcp/frame.rs parse_header')
    body = steps_of(rp.find_body(tsrc, r'fn\s+parse_body\s*\([^)]*\)\s*->\s*Result<Frame,\s*RequestError>\s*\{'), MBAP_BODY_RULES, 'tcp/frame.rs parse_body')
    impl = rp.find_body(tsrc, r'impl\s+MbapParser\s*\{')
    parse = rp.find_body(impl, r'pub\(crate\)\s+fn\s+parse\s*\([^)]*\)\s*->\s*Result<Option<Frame>,\s*RequestError>\s*\{')
    stm = statements(parse)
    if len(stm) != 1 or not stm[0].startswith('loop {'):
        raise ParseError('tcp/frame.rs MbapParser::parse is not a single `loop { .. }`')
    loop_body = rp.block_after(parse, parse.index('loop'))[0]
    lst = statements(loop_body)
    if len(lst) != 1 or not re.match(r'match self\.state \{', lst[0]):
        raise ParseError('tcp/frame.rs MbapParser::parse: the loop body is not a single `match self.state { .. }`')
    arms = dict()
    for pat, expr in rp.match_arms(rp.first_match_body(loop_body, r'self\.state\s*')):
        arms[' '.join(pat.split())] = arm_block(expr)
    if sorted(arms) != ['ParseState::Begin', 'ParseState::Header(header, adu_length)']:
        raise ParseError('tcp/frame.rs MbapParser::parse: unexpected state arms ' + str(sorted(arms)))
    harm = steps_of(arms['ParseState::Header(header, adu_length)'], MBAP_HEADER_ARM_RULES, 'tcp/frame.rs parse, Header arm')
    barm = steps_of(arms['ParseState::Begin'], MBAP_BEGIN_ARM_RULES, 'tcp/frame.rs parse, Begin arm')
    out += '(* tcp/frame.rs: MbapParser::parse_header, statement by statement (reads and checks in the code\'s order) *)\n'
    out += 'Inductive hfield := FTxId | FProtocolId | FLength | FUnitId.\n'
    out += 'Inductive hcheck := ChkProtocolId | ChkLengthTooBig | ChkLengthZero.\n'
    out += 'Inductive hstep := HRead (f : hfield) | HCheck (c : hcheck) | HReturn.\n'
    out += 'Definition mbap_header_steps : list hstep := ' + coq_list([t for t, _ in hdr]) + '.\n'
    out += '(* MbapParser::parse_body and the two arms of the loop in MbapParser::parse *)\n'
    out += 'Inductive pstep := PNeedHeader | PParseHeader | PGotoHeader | PNeedBody | PParseBody | PGotoBegin | PReturnFrame | BReadAdu | BReturn.\n'
    out += 'Definition mbap_body_steps : list pstep := ' + coq_list([t for t, _ in body]) + '.\n'
    out += 'Definition mbap_begin_arm : list pstep := ' + coq_list([t for t, _ in barm]) + '.\n'
    out += 'Definition mbap_header_arm : list pstep := ' + coq_list([t for t, _ in harm]) + '.\n\n'
    # ---- RTU
    rimpl = rp.find_body(ssrc, r'impl\s+RtuParser\s*\{')
    rparse = rp.find_body(rimpl, r'pub\(crate\)\s+fn\s+parse\s*\([^)]*\)\s*->\s*Result<Option<Frame>,\s*RequestError>\s*\{')
    rst = statements(rparse)
    if len(rst) != 1 or not re.match(r'match self\.state \{', rst[0]):
        raise ParseError('serial/frame.rs RtuParser::parse is not a single `match self.state { .. }`')
    rarms = dict()
    for pat, expr in rp.match_arms(rp.first_match_body(rparse, r'self\.state\s*')):
        rarms[' '.join(pat.split())] = arm_block(expr)
    want = ['ParseState::ReadFullBody(destination, length)', 'ParseState::ReadToOffsetForLength(destination, offset)', 'ParseState::Start']
    if sorted(rarms) != want:
        raise ParseError('serial/frame.rs RtuParser::parse: unexpected state arms ' + str(sorted(rarms)))
    start = steps_of(rarms['ParseState::Start'], RTU_START_RULES, 'serial/frame.rs parse, Start arm')
    offs = steps_of(rarms['ParseState::ReadToOffsetForLength(destination, offset)'], RTU_OFFSET_RULES, 'serial/frame.rs parse, ReadToOffsetForLength arm')
    full = steps_of(rarms['ParseState::ReadFullBody(destination, length)'], RTU_FULL_RULES, 'serial/frame.rs parse, ReadFullBody arm')
    tagmap = {'ReadFullBody': 'TReadFullBody', 'ReadToOffsetForLength': 'TReadToOffsetForLength'}
    stags = []
    for t, st in start:
        if t == 'RDISPATCH':
            m = re.fullmatch(RTU_START_RULES[5][0], st)
            if m.group(1) not in tagmap or m.group(2) not in tagmap:
                raise ParseError('serial/frame.rs parse, Start arm: unknown target state in the length_mode dispatch')
            stags.append(f'RDispatch {tagmap[m.group(1)]} {tagmap[m.group(2)]}')
        else:
            stags.append(t)
    out += '(* serial/frame.rs: RtuParser::parse, the three arms of `match self.state`, statement by statement *)\n'
    out += 'Inductive rtag := TReadFullBody | TReadToOffsetForLength.\n'
    out += ('Inductive rstep := RNeedTwo | RReadAddress | RPeekFunction | RDispatch (on_fixed on_offset : rtag) (* Unknown => Err UnknownFunctionCode *)\n'
            '  | RNeedOffset | RPeekCount | RGotoFull | RRecurse\n'
            '  | FTooBig | FNeed | FReadBody | FReadCrc | FComputeCrc | FCompare | FGotoStart | FReturn.\n')
    out += 'Definition rtu_start_arm : list rstep := ' + coq_list(stags) + '.\n'
    out += 'Definition rtu_offset_arm : list rstep := ' + coq_list([t for t, _ in offs]) + '.\n'
    out += 'Definition rtu_full_arm : list rstep := ' + coq_list([t for t, _ in full]) + '.\n'
    return out
