"""Generator for Gen/LockScope.v (C19): the syntactic facts about the handler mutex that the
lock-granular atomicity model assumes: a whole reply is produced inside ONE critical section
(rodbus/src/server/task.rs handle_frame) and a whole C-ABI transaction callback runs inside ONE
critical section of the same mutex (ffi/rodbus-ffi/src/server.rs server_update_database)."""
import re
import rustparse as rp
from rustparse import ParseError
from registry import generator


def matching(src, i, open_ch, close_ch):
    depth = 0
    for j in range(i, len(src)):
        if src[j] == open_ch:
            depth += 1
        elif src[j] == close_ch:
            depth -= 1
            if depth == 0:
                return j + 1
    raise ParseError('unbalanced ' + open_ch)


def fn_body(src, header_re, where):
    m = re.search(header_re, src)
    if not m:
        raise ParseError(where + ': not found')
    pclose = matching(src, m.end() - 1, '(', ')')
    bopen = src.find('{', pclose)
    return src[bopen + 1:matching(src, bopen, '{', '}') - 1]


@generator('LockScope.v', 'rodbus/src/server/task.rs', 'rodbus/src/server/request.rs', 'ffi/rodbus-ffi/src/server.rs')
def gen_lock_scope(repo):
    task = rp.read(f'{repo}/rodbus/src/server/task.rs')
    body = fn_body(task, r'async\s+fn\s+handle_frame\s*\(', 'task.rs handle_frame')
    calls = [m for m in re.finditer(r'request\s*\.\s*get_reply\s*\(', body)]
    if len(calls) != 1:
        raise ParseError(f'task.rs handle_frame: expected exactly one request.get_reply(..) call, found {len(calls)}')
    c = calls[0]
    args = [''.join(a.split()) for a in rp.split_top(body[c.end():matching(body, c.end() - 1, '(', ')') - 1])]
    guard_is_argument = 'handler.lock().unwrap().as_mut()' in args
    n_locks = len(re.findall(r'\.\s*lock\s*\(\s*\)', body))
    # the other lock in handle_frame is the broadcast arm: request.execute(handler.lock().unwrap().as_mut())
    bcast = len(re.findall(r'request\s*\.\s*execute\s*\(\s*handler\s*\.\s*lock\s*\(\s*\)\s*\.\s*unwrap\s*\(\s*\)\s*\.\s*as_mut\s*\(\s*\)\s*\)', body))
    reply_one_section = guard_is_argument and n_locks == 1 + bcast

    # ---- what exactly happens inside / outside the critical section of a unicast request
    # the statement that holds the guard: `let reply: &[u8] = request.get_reply(..)?;`
    st_start = body.rfind(';', 0, c.start()) + 1
    st_end = body.find(';', matching(body, c.end() - 1, '(', ')'))
    stmt = body[st_start:st_end]
    flat_stmt = ''.join(stmt.split())
    # the FrameWriter is handed to that very call: every reply byte (header, function code, data or
    # exception code, CRC on serial) is formatted into it before the guard temporary is dropped
    writer_is_argument = '&mutself.writer' in args
    # nothing in that statement can yield or touch the socket
    stmt_is_sync = '.await' not in flat_stmt and 'io.' not in flat_stmt and 'write_reply' not in flat_stmt
    # the socket write is a later, separate statement using the formatted bytes
    after = ''.join(body[st_end + 1:].split())
    socket_write_later = bool(re.match(r'(write_reply\(io,reply,[^;]*\)|io\.write\(reply,[^;]*\))\.await\?;', after))
    # Request::get_reply is a plain (non-async) fn and contains no await
    req_src = rp.read(f'{repo}/rodbus/src/server/request.rs')
    mget = re.search(r'(async\s+)?fn\s+get_reply\s*(<[^>]*>)?\s*\(', req_src)
    if not mget:
        raise ParseError('request.rs: fn get_reply not found')
    get_reply_body = fn_body(req_src, r'fn\s+get_reply\s*(<[^>]*>)?\s*\(', 'request.rs get_reply')
    get_reply_sync = mget.group(1) is None and '.await' not in get_reply_body
    # the authorization query precedes the lock
    auth_pos = body.find('.is_authorized(')
    authorization_before_lock = 0 <= auth_pos < c.start()
    # broadcast: `for handler in self.handlers.iter_mut() { request.execute(handler.lock().unwrap().as_mut()); }`
    bflat = ''.join(body.split())
    broadcast_per_unit = bool(re.search(r'forhandlerinself\.handlers\.iter_mut\(\)\{request\.execute\(handler\.lock\(\)\.unwrap\(\)\.as_mut\(\)\);\}', bflat))

    ffi = rp.read(f'{repo}/ffi/rodbus-ffi/src/server.rs')
    ub = fn_body(ffi, r'pub\(crate\)\s+unsafe\s+fn\s+server_update_database\s*\(', 'ffi server.rs server_update_database')
    flat = ''.join(ub.split())
    m = re.search(r'\{letmutlock=handler\.lock\(\)\.unwrap\(\);transaction\.callback\(&mutlock\.database\);\}', flat)
    txn_one_section = bool(m) and flat.count('.lock()') == 1 and 'drop(lock)' not in flat
    # the reads of the wrapper take no lock of their own: they are called with the guard already held
    impl = rp.find_body(ffi, r'impl\s+RequestHandler\s+for\s+RequestHandlerWrapper\s*\{')
    wrapper_lock_free = '.lock()' not in impl

    out = '(* rodbus/src/server/task.rs handle_frame: the reply of a unicast request is produced by ONE call\n'
    out += '   request.get_reply(header, handler.lock().unwrap().as_mut(), writer, decode): the guard is a temporary of that\n'
    out += '   call expression, so every read_*/write_* handler call of the request happens inside one critical section *)\n'
    out += f'Definition reply_in_one_critical_section : bool := {"true" if reply_one_section else "false"}.\n'
    out += '(* ffi server.rs server_update_database: { let mut lock = handler.lock().unwrap(); transaction.callback(&mut lock.database); } *)\n'
    out += f'Definition transaction_in_one_critical_section : bool := {"true" if txn_one_section else "false"}.\n'
    out += '(* impl RequestHandler for RequestHandlerWrapper takes no lock itself *)\n'
    out += f'Definition wrapper_takes_no_lock : bool := {"true" if wrapper_lock_free else "false"}.\n'
    out += '(* the FrameWriter is an argument of the locked get_reply call: ALL reply bytes (MBAP / RTU header, function code, byte\n'
    out += '   count and data or exception code, CRC on serial) are formatted inside the critical section *)\n'
    out += f'Definition reply_bytes_formatted_under_lock : bool := {"true" if writer_is_argument else "false"}.\n'
    out += '(* the statement holding the guard contains no .await and no socket access; Request::get_reply is not async *)\n'
    out += f'Definition locked_statement_is_synchronous : bool := {"true" if (stmt_is_sync and get_reply_sync) else "false"}.\n'
    out += '(* the socket write (write_reply(io, reply, ..).await / io.write(reply, ..).await) is the NEXT statement: the guard is gone *)\n'
    out += f'Definition socket_write_after_unlock : bool := {"true" if socket_write_later else "false"}.\n'
    out += '(* the authorization handler is consulted before the unit lock is taken *)\n'
    out += f'Definition authorization_before_lock : bool := {"true" if authorization_before_lock else "false"}.\n'
    # ffi server.rs device_map_add_endpoint: a unit id that is already registered is refused BEFORE anything else happens
    ab = ''.join(fn_body(ffi, r'pub\(crate\)\s+unsafe\s+fn\s+device_map_add_endpoint\s*\(', 'ffi server.rs device_map_add_endpoint').split())
    i_check = ab.find('ifmap.inner.contains_key(&unit_id){returnfalse;}')
    i_cfg = ab.find('configure.callback(')
    i_ins = ab.find('map.inner.insert(unit_id,handler)')
    if i_cfg < 0 or i_ins < 0:
        raise ParseError('ffi server.rs device_map_add_endpoint: configure.callback(..) / map.inner.insert(unit_id, handler) not found')
    dup_refused_first = 0 <= i_check < i_cfg < i_ins and ab.count('map.inner.insert(') == 1
    out += '(* ffi server.rs device_map_add_endpoint: `if map.inner.contains_key(&unit_id) { return false; }` precedes the configure callback and the only insert *)\n'
    out += f'Definition duplicate_unit_refused_before_any_effect : bool := {"true" if dup_refused_first else "false"}.\n'
    out += '(* broadcast: the loop over the units takes each unit lock separately, inside the loop body *)\n'
    out += f'Definition broadcast_locks_each_unit_separately : bool := {"true" if broadcast_per_unit else "false"}.\n'
    return out
