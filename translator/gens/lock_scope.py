"""Generator for Gen/LockScope.v (C19): the syntactic facts about the handler mutex that the
lock-granular atomicity model assumes: a whole reply is produced inside ONE critical section
(rodbus/src/server/task.rs handle_frame) and a whole C-ABI transaction callback runs inside ONE
critical section of the same mutex (ffi/rodbus-ffi/src/server.rs server_update_database)."""
import re
import rustparse as rp
from rustparse import ParseError
from registry import generator


def matching(src, i, open_ch, close_ch):
    depth = 0
    for j in range(i, len(src)):
        if src[j] == open_ch:
            depth += 1
        elif src[j] == close_ch:
            depth -= 1
            if depth == 0:
                return j + 1
    raise ParseError('unbalanced ' + open_ch)


def fn_body(src, header_re, where):
    m = re.search(header_re, src)
    if not m:
        raise ParseError(where + ': not found')
    pclose = matching(src, m.end() - 1, '(', ')')
    bopen = src.find('{', pclose)
    return src[bopen + 1:matching(src, bopen, '{', '}') - 1]


@generator('LockScope.v', 'rodbus/src/server/task.rs', 'ffi/rodbus-ffi/src/server.rs')
def gen_lock_scope(repo):
    task = rp.read(f'{repo}/rodbus/src/server/task.rs')
    body = fn_body(task, r'async\s+fn\s+handle_frame\s*\(', 'task.rs handle_frame')
    calls = [m for m in re.finditer(r'request\s*\.\s*get_reply\s*\(', body)]
    if len(calls) != 1:
        raise ParseError(f'task.rs handle_frame: expected exactly one request.get_reply(..) call, found {len(calls)}')
    c = calls[0]
    args = [''.join(a.split()) for a in rp.split_top(body[c.end():matching(body, c.end() - 1, '(', ')') - 1])]
    guard_is_argument = 'handler.lock().unwrap().as_mut()' in args
    n_locks = len(re.findall(r'\.\s*lock\s*\(\s*\)', body))
    # the other lock in handle_frame is the broadcast arm: request.execute(handler.lock().unwrap().as_mut())
    bcast = len(re.findall(r'request\s*\.\s*execute\s*\(\s*handler\s*\.\s*lock\s*\(\s*\)\s*\.\s*unwrap\s*\(\s*\)\s*\.\s*as_mut\s*\(\s*\)\s*\)', body))
    reply_one_section = guard_is_argument and n_locks == 1 + bcast

    ffi = rp.read(f'{repo}/ffi/rodbus-ffi/src/server.rs')
    ub = fn_body(ffi, r'pub\(crate\)\s+unsafe\s+fn\s+server_update_database\s*\(', 'ffi server.rs server_update_database')
    flat = ''.join(ub.split())
    m = re.search(r'\{letmutlock=handler\.lock\(\)\.unwrap\(\);transaction\.callback\(&mutlock\.database\);\}', flat)
    txn_one_section = bool(m) and flat.count('.lock()') == 1 and 'drop(lock)' not in flat
    # the reads of the wrapper take no lock of their own: they are called with the guard already held
    impl = rp.find_body(ffi, r'impl\s+RequestHandler\s+for\s+RequestHandlerWrapper\s*\{')
    wrapper_lock_free = '.lock()' not in impl

    out = '(* rodbus/src/server/task.rs handle_frame: the reply of a unicast request is produced by ONE call\n'
    out += '   request.get_reply(header, handler.lock().unwrap().as_mut(), writer, decode): the guard is a temporary of that\n'
    out += '   call expression, so every read_*/write_* handler call of the request happens inside one critical section *)\n'
    out += f'Definition reply_in_one_critical_section : bool := {"true" if reply_one_section else "false"}.\n'
    out += '(* ffi server.rs server_update_database: { let mut lock = handler.lock().unwrap(); transaction.callback(&mut lock.database); } *)\n'
    out += f'Definition transaction_in_one_critical_section : bool := {"true" if txn_one_section else "false"}.\n'
    out += '(* impl RequestHandler for RequestHandlerWrapper takes no lock itself *)\n'
    out += f'Definition wrapper_takes_no_lock : bool := {"true" if wrapper_lock_free else "false"}.\n'
    return out
