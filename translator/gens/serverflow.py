"""Generator for Gen/ServerFlow.v: the control-flow skeleton of SessionTask::handle_frame
(server/task.rs: the ORDER of the early-return points and what each one replies) and the step
sequence of every arm of Request::parse (server/request.rs; limits resolved through types.rs;
BitIterator / RegisterIterator::parse_all). Every statement must have exactly one of the shapes
recognised here; anything else raises ParseError (a lost tie is never silent)."""
import re
import rustparse as rp
from rustparse import ParseError
from registry import generator


def norm(s):
    return ' '.join(s.split())


def statements(block):
    """top-level statements of a block body: split at `;` at depth 0; a `{...}` block that starts a
    statement (if / match / for used as statement) ends it at its closing brace"""
    out, cur, depth, i = [], '', 0, 0
    while i < len(block):
        ch = block[i]
        cur += ch
        if ch in '([{':
            depth += 1
        elif ch in ')]}':
            depth -= 1
            if ch == '}' and depth == 0:
                head = cur.lstrip()
                if re.match(r'(if|match|for|loop|while)\b', head):
                    # an `else` may follow an if-block
                    rest = block[i + 1:].lstrip()
                    if not rest.startswith('else'):
                        out.append(norm(cur))
                        cur = ''
        elif ch == ';' and depth == 0:
            out.append(norm(cur[:-1]))
            cur = ''
        i += 1
    if cur.strip():
        out.append(norm(cur))
    return [s for s in out if s]


def strip_tracing(stmts):
    return [s for s in stmts if not re.match(r'tracing::(warn|info|debug|error|trace)!\(', s)]


EXC = {'IllegalFunction': 'illegal_function', 'IllegalDataAddress': 'illegal_data_address', 'IllegalDataValue': 'illegal_data_value',
       'ServerDeviceFailure': 'server_device_failure', 'Acknowledge': 'acknowledge', 'ServerDeviceBusy': 'server_device_busy',
       'MemoryParityError': 'memory_parity_error', 'GatewayPathUnavailable': 'gateway_path_unavailable',
       'GatewayTargetDeviceFailedToRespond': 'gateway_target_device_failed_to_respond'}


def block_of(s, where):
    s = s.strip()
    if not (s.startswith('{') and s.endswith('}')):
        raise ParseError(f'{where}: not a block: {s[:60]}')
    return s[1:-1]


def early_return_action(block, where):
    """an error block: [tracing] [if !self.is_served(frame.header.destination) { return Ok(()) }] return <reply> | return Ok(())"""
    st = strip_tracing(statements(block))
    guard = 'GNone'
    if st and re.fullmatch(r'if !self\.is_served\(frame\.header\.destination\) \{ return Ok\(\(\)\) ?;? \}', st[0]):
        guard = 'GServed'
        st = st[1:]
    if len(st) != 1:
        raise ParseError(f'{where}: unexpected statements in early-return block: {st}')
    s = st[0]
    if re.fullmatch(r'return Ok\(\(\)\)', s):
        if guard != 'GNone':
            raise ParseError(f'{where}: guard before a silent return')
        return 'ASilent'
    m = re.fullmatch(r'return self \.reply_with_error_generic\( io, frame\.header, FunctionField::unknown\(value\), ExceptionCode::(\w+),? \) \.await', s) \
        or re.fullmatch(r'return self\.reply_with_error_generic\(io, frame\.header, FunctionField::unknown\(value\), ExceptionCode::(\w+),?\)\.await', s.replace(' .', '.').replace('( ', '(').replace(' )', ')'))
    if m:
        return f'AException {guard} FieldUnknown Rodbus.Gen.Consts.{EXC[m.group(1)]}'
    m = re.fullmatch(r'return self\.reply_with_error\(io, frame\.header, function, ExceptionCode::(\w+),?\)\.await', s.replace(' .', '.').replace('( ', '(').replace(' )', ')'))
    if m:
        return f'AException {guard} FieldException Rodbus.Gen.Consts.{EXC[m.group(1)]}'
    raise ParseError(f'{where}: early return not understood: {s[:120]}')


def arms_of(match_stmt, where):
    i = match_stmt.index('{')
    body, _ = rp.block_after(match_stmt, i)
    return [(norm(p), norm(e)) for p, e in rp.match_arms(body)]


def handle_frame_flow(task):
    body = rp.find_body(task, r'async\s+fn\s+handle_frame\s*\(')
    st = statements(body)
    flow = []
    if not st or not re.fullmatch(r'let mut cursor = ReadCursor::new\(frame\.payload\(\)\)', st[0]):
        raise ParseError('handle_frame: first statement is not the read cursor over the payload')
    st = st[1:]
    for s in st:
        if re.match(r'let function = match cursor\.read_u8\(\) \{', s):
            arms = dict(arms_of(s[s.index('match'):], 'function'))
            if set(arms) != {'Err(_)', 'Ok(value)'}:
                raise ParseError(f'handle_frame: arms of the function byte match: {list(arms)}')
            flow.append('FReadFunction (' + early_return_action(block_of('{' + arms['Err(_)'] + '}' if not arms['Err(_)'].startswith('{') else arms['Err(_)'], 'empty frame'), 'empty frame') + ')')
            inner = arms['Ok(value)']
            if not re.match(r'match FunctionCode::get\(value\) \{', inner):
                raise ParseError('handle_frame: Ok(value) arm is not `match FunctionCode::get(value)`')
            a2 = dict(arms_of(inner, 'FunctionCode::get'))
            if set(a2) != {'Some(x)', 'None'} or a2['Some(x)'] != 'x':
                raise ParseError(f'handle_frame: arms of FunctionCode::get: {a2}')
            none = a2['None']
            flow.append('FDecodeFunction (' + early_return_action(none if not none.startswith('{') else block_of(none, 'unknown function'), 'unknown function') + ')')
        elif re.match(r'let request = match Request::parse\(function, &mut cursor\) \{', s):
            arms = dict(arms_of(s[s.index('match'):], 'parse'))
            if set(arms) != {'Ok(x)', 'Err(err)'} or arms['Ok(x)'] != 'x':
                raise ParseError(f'handle_frame: arms of Request::parse: {list(arms)}')
            e = arms['Err(err)']
            flow.append('FParse (' + early_return_action(e if not e.startswith('{') else block_of(e, 'parse error'), 'parse error') + ')')
        elif re.match(r'if self\.decode\.app\.enabled\(\) \{', s):
            inner = strip_tracing(statements(block_of(s[s.index('{'):], 'logging')))
            if inner:
                raise ParseError(f'handle_frame: the logging block does more than log: {inner}')
        elif re.match(r'if let Authorization::Deny = self \.auth \.is_authorized\(frame\.header\.destination\.into_unit_id\(\), &request\) \{', s) \
                or re.match(r'if let Authorization::Deny = self\.auth\.is_authorized\(frame\.header\.destination\.into_unit_id\(\), &request\) \{', s.replace(' .', '.')):
            s2 = s.replace(' .', '.')
            inner = strip_tracing(statements(block_of(s2[s2.index('{'):], 'deny')))
            if len(inner) != 2 or not re.fullmatch(r'return Ok\(\(\)\)', inner[1]):
                raise ParseError(f'handle_frame: deny block: {inner}')
            m = re.fullmatch(r'if !frame\.header\.destination\.is_broadcast\(\) \{ self\.reply_with_error\( ?io, frame\.header, request\.get_function\(\), ExceptionCode::(\w+),? ?\)\.await\? ?;? \}', inner[0])
            if not m:
                raise ParseError(f'handle_frame: deny reply not understood: {inner[0][:160]}')
            flow.append(f'FAuthorize (AException GNotBroadcast FieldException Rodbus.Gen.Consts.{EXC[m.group(1)]})')
        elif re.match(r'match frame\.header\.destination \{', s):
            arms = dict(arms_of(s, 'destination'))
            if set(arms) != {'FrameDestination::UnitId(unit_id)', 'FrameDestination::Broadcast'}:
                raise ParseError(f'handle_frame: arms of the destination match: {list(arms)}')
            ust = statements(block_of(arms['FrameDestination::UnitId(unit_id)'], 'unit arm'))
            if len(ust) != 3:
                raise ParseError(f'handle_frame: unit arm has {len(ust)} statements')
            if not re.match(r'let handler = match self\.handlers\.get\(unit_id\) \{', ust[0]):
                raise ParseError('handle_frame: unit arm does not start with the handler lookup')
            la = dict(arms_of(ust[0][ust[0].index('match'):], 'lookup'))
            if set(la) != {'None', 'Some(handler)'} or la['Some(handler)'] != 'handler':
                raise ParseError(f'handle_frame: arms of the handler lookup: {la}')
            unmapped = early_return_action(block_of(la['None'], 'unmapped unit') if la['None'].startswith('{') else la['None'], 'unmapped unit')
            if not re.fullmatch(r'let reply: &\[u8\] = request\.get_reply\( ?frame\.header, handler\.lock\(\)\.unwrap\(\)\.as_mut\(\), &mut self\.writer, self\.decode,? ?\)\?', ust[1]):
                raise ParseError(f'handle_frame: get_reply call not understood: {ust[1][:160]}')
            if not re.fullmatch(r'write_reply\(io, reply, &mut self\.commands, &mut self\.decode\)\.await\?', ust[2]):
                raise ParseError(f'handle_frame: reply write not understood: {ust[2][:120]}')
            b = arms['FrameDestination::Broadcast']
            if not re.match(r'match request\.into_broadcast_request\(\) \{', b):
                raise ParseError('handle_frame: broadcast arm is not `match request.into_broadcast_request()`')
            ba = dict(arms_of(b, 'broadcast'))
            if set(ba) != {'None', 'Some(request)'}:
                raise ParseError(f'handle_frame: arms of into_broadcast_request: {list(ba)}')
            if strip_tracing(statements(block_of(ba['None'], 'broadcast none') if ba['None'].startswith('{') else ba['None'])):
                raise ParseError('handle_frame: unsupported broadcast does more than log')
            loop = norm(ba['Some(request)'])
            if not re.fullmatch(r'\{? ?for handler in self\.handlers\.iter_mut\(\) \{ request\.execute\(handler\.lock\(\)\.unwrap\(\)\.as_mut\(\)\) ?;? \} ?\}?', loop):
                raise ParseError(f'handle_frame: broadcast loop not understood: {loop[:160]}')
            flow.append(f'FDispatch ({unmapped})')
        elif s == 'Ok(())':
            pass
        else:
            raise ParseError(f'handle_frame: statement not understood: {s[:120]}')
    return flow


def check_error_reply(task):
    g = norm(rp.find_body(task, r'async\s+fn\s+reply_with_error_generic\s*\('))
    if not re.fullmatch(r'if header\.destination != FrameDestination::Broadcast \{ let bytes = self\.writer\.format_ex\(header, func, ex, self\.decode\)\? ?; write_reply\(io, bytes, &mut self\.commands, &mut self\.decode\)\.await\? ?; \} Ok\(\(\)\)', g):
        raise ParseError('reply_with_error_generic: not `if not broadcast { format_ex; write_reply } Ok(())`: ' + g[:200])
    e = norm(rp.find_body(task, r'async\s+fn\s+reply_with_error\s*\(')).replace(' .', '.')
    if not re.fullmatch(r'self\.reply_with_error_generic\(io, header, FunctionField::Exception\(func\), ex\)\.await', e):
        raise ParseError('reply_with_error: does not delegate with FunctionField::Exception(func): ' + e[:200])
    sv = norm(rp.find_body(task, r'fn\s+is_served\s*\('))
    if not re.fullmatch(r'match destination \{ FrameDestination::UnitId\(unit_id\) => \{ if self\.handlers\.get\(unit_id\)\.is_none\(\) \{ tracing::warn!\([^;]*\); return false; \} true \} FrameDestination::Broadcast => true, \}', sv):
        raise ParseError('is_served: not `unit id in the handler map, or broadcast`: ' + sv[:240])


def limit_of(types_src, method):
    b = norm(rp.find_body(types_src, r'fn\s+' + method + r'\s*\(\s*self\s*\)'))
    m = re.search(r'self\.limited_count\(crate::constants::limits::(\w+)\)\?', b)
    if not m:
        raise ParseError(f'types.rs::{method}: no limited_count(<constant>)')
    return m.group(1).lower()


def parse_flows(req, types_src):
    body = rp.find_body(req, r'pub\(crate\)\s+fn\s+parse\s*\(')
    arms = rp.match_arms(rp.first_match_body(body, r'function\s*'))
    flows = {}
    for pat, expr in arms:
        m = re.fullmatch(r'FunctionCode::(\w+)', pat.strip())
        if not m:
            raise ParseError(f'Request::parse: arm pattern {pat}')
        fc = m.group(1)
        st = statements(block_of(expr.strip(), fc) if expr.strip().startswith('{') else expr)
        steps = []
        for s in st:
            s1 = s.replace(' .', '.').replace('( ', '(').replace(' )', ')').replace(',)', ')').replace(', )', ')')
            m = re.fullmatch(r'let x = Request::(\w+)\((.*)\)', s1)
            if m:
                if m.group(1) != fc:
                    raise ParseError(f'Request::parse: arm {fc} builds Request::{m.group(1)}')
                e = m.group(2).strip()
                mm = re.fullmatch(r'AddressRange::parse\(cursor\)\?\.(of_read_bits|of_read_registers)\(\)\?', e)
                if mm:
                    steps += ['PRange', f'PLimit Rodbus.Gen.Consts.{limit_of(types_src, mm.group(1))}']
                elif e == 'Indexed::<bool>::parse(cursor)?':
                    steps.append('PIndexedBool')
                elif e == 'Indexed::<u16>::parse(cursor)?':
                    steps.append('PIndexedU16')
                else:
                    raise ParseError(f'Request::parse {fc}: constructor argument not understood: {e}')
            elif s1 == 'cursor.expect_empty()?':
                steps.append('PExpectEmpty')
            elif s1 == 'Ok(x)':
                pass
            elif s1 == 'let range = AddressRange::parse(cursor)?':
                steps.append('PRange')
            elif re.fullmatch(r'let max = crate::constants::limits::(\w+)', s1):
                pending_max = re.fullmatch(r'let max = crate::constants::limits::(\w+)', s1).group(1).lower()
                steps.append(('MAXDECL', pending_max))
            elif re.fullmatch(r'if range\.count > max \{ return Err\(InvalidRange::CountTooLargeForType\(range\.count, max\)\.into\(\)\) ?;? \}', s1):
                if not steps or not isinstance(steps[-1], tuple):
                    raise ParseError(f'Request::parse {fc}: limit check without `let max = <constant>` right before it')
                steps[-1] = f'PMax Rodbus.Gen.Consts.{steps[-1][1]}'
            elif s1 == 'cursor.read_u8()?':
                steps.append('PSkipByte')
            else:
                mm = re.fullmatch(r'Ok\(Request::(\w+)\((\w+)::new\(range, (BitIterator|RegisterIterator)::parse_all\(range, cursor\)\?\)\)\)', s1)
                if not mm or mm.group(1) != fc:
                    raise ParseError(f'Request::parse {fc}: statement not understood: {s1[:140]}')
                want = {'WriteMultipleCoils': ('WriteCoils', 'BitIterator'), 'WriteMultipleRegisters': ('WriteRegisters', 'RegisterIterator')}.get(fc)
                if want != (mm.group(2), mm.group(3)):
                    raise ParseError(f'Request::parse {fc}: builds {mm.group(2)} from {mm.group(3)}')
                steps.append('PParseAll ' + ('AllBits' if mm.group(3) == 'BitIterator' else 'AllRegisters'))
        if any(isinstance(x, tuple) for x in steps):
            raise ParseError(f'Request::parse {fc}: `let max` without the limit check')
        flows[fc] = steps
    if len(flows) != 8:
        raise ParseError(f'Request::parse: {len(flows)} arms')
    return flows


def parse_all_flows(types_src):
    res = {}
    for it, key, want in (('BitIterator', 'AllBits', r'crate::common::bits::num_bytes_for_bits\(range\.count\)'),
                          ('RegisterIterator', 'AllRegisters', r'2 \* \(range\.count as usize\)')):
        impl = rp.find_body(types_src, r"impl<'a>\s+" + it + r"<'a>\s*\{")
        b = norm(rp.find_body(impl, r'fn\s+parse_all\s*\('))
        m = re.fullmatch(r'let bytes = cursor\.read_bytes\((.*)\)\? ?; cursor\.expect_empty\(\)\? ?; Ok\(Self \{ bytes, range, pos: 0, \}\)', b)
        if not m or not re.fullmatch(want, m.group(1)):
            raise ParseError(f'{it}::parse_all: not `read_bytes(<count expression>)?; expect_empty()?`: {b[:200]}')
        res[key] = ['AReadBytes ' + ('NBits' if key == 'AllBits' else 'NTwicePerRegister'), 'AExpectEmpty']
    bits = norm(rp.find_body(_BITS['src'], r'fn\s+num_bytes_for_bits\s*\('))
    if bits != '(count as usize).div_ceil(8)':
        raise ParseError('common/bits.rs::num_bytes_for_bits is not (count as usize).div_ceil(8): ' + bits)
    return res


_BITS = {}


@generator('ServerFlow.v', 'rodbus/src/server/task.rs', 'rodbus/src/server/request.rs', 'rodbus/src/types.rs', 'rodbus/src/common/bits.rs')
def gen_server_flow(repo):
    task = rp.read(f'{repo}/rodbus/src/server/task.rs')
    req = rp.read(f'{repo}/rodbus/src/server/request.rs')
    types_src = rp.read(f'{repo}/rodbus/src/types.rs')
    _BITS['src'] = rp.read(f'{repo}/rodbus/src/common/bits.rs')
    check_error_reply(task)
    flow = handle_frame_flow(task)
    kinds = [x.split(' ')[0] for x in flow]
    if sorted(kinds) != sorted(['FReadFunction', 'FDecodeFunction', 'FParse', 'FAuthorize', 'FDispatch']):
        raise ParseError(f'handle_frame: steps found: {kinds}')
    pf = parse_flows(req, types_src)
    pa = parse_all_flows(types_src)
    # limited_count itself
    lc = norm(rp.find_body(types_src, r'fn\s+limited_count\s*\('))
    if not re.fullmatch(r'let range = Self::try_from\(self\.start, self\.count\)\? ?; if range\.count > limit \{ return Err\(InvalidRange::CountTooLargeForType\(self\.count, limit\)\) ?; \} Ok\(self\)', lc):
        raise ParseError('types.rs::limited_count: not `try_from(..)?; if count > limit { Err }; Ok(self)`: ' + lc[:200])
    out = 'From Rodbus Require Gen.Consts.\n\n'
    out += '(* ---- server/task.rs: SessionTask::handle_frame ---- *)\n'
    out += '(* what guards an exception reply: `if !self.is_served(destination) { return Ok(()) }` before it, or\n   `if !destination.is_broadcast() { .. }` around it *)\n'
    out += 'Inductive fguard := GServed | GNotBroadcast | GNone.\n'
    out += '(* the function field of the reply: FunctionField::unknown(value) through reply_with_error_generic, or\n   FunctionField::Exception(function) through reply_with_error *)\n'
    out += 'Inductive ffieldk := FieldUnknown | FieldException.\n'
    out += 'Inductive faction := ASilent | AException (g : fguard) (fld : ffieldk) (code : N).\n'
    out += '(* the early-return points, in program order, with what each one does when it fires *)\n'
    out += 'Inductive fstep :=\n| FReadFunction (on_empty : faction)       (* cursor.read_u8() fails *)\n| FDecodeFunction (on_unknown : faction)   (* FunctionCode::get(value) = None *)\n'
    out += '| FParse (on_error : faction)             (* Request::parse fails *)\n| FAuthorize (on_deny : faction)          (* self.auth.is_authorized(..) = Deny *)\n'
    out += '| FDispatch (on_unmapped : faction).      (* UnitId: handlers.get(unit) = None; else get_reply + write_reply. Broadcast: into_broadcast_request, execute on every handler *)\n'
    out += 'Definition handle_frame_flow : list fstep :=\n  [ ' + ';\n    '.join(flow) + ' ].\n'
    out += '(* reply_with_error_generic writes nothing when the destination is Broadcast; reply_with_error delegates to it\n   with FunctionField::Exception; is_served = unit id in the handler map, or broadcast *)\n'
    out += 'Definition error_replies_suppressed_on_broadcast : bool := true.\n\n'
    out += '(* ---- server/request.rs: Request::parse, one step list per arm ---- *)\n'
    out += 'Inductive pall := AllBits | AllRegisters.\n'
    out += 'Inductive pstep :=\n| PRange                (* AddressRange::parse(cursor)? *)\n| PLimit (limit : N)    (* .of_read_bits()? / .of_read_registers()?: limited_count(limit) *)\n'
    out += '| PMax (max : N)        (* if range.count > max { return Err(..) } *)\n| PSkipByte             (* cursor.read_u8()?  (the byte count) *)\n'
    out += '| PParseAll (k : pall)  (* BitIterator / RegisterIterator::parse_all(range, cursor)? *)\n| PIndexedBool | PIndexedU16   (* Indexed::<bool> / Indexed::<u16>::parse(cursor)? *)\n| PExpectEmpty.         (* cursor.expect_empty()? *)\n'
    out += 'Definition parse_flow (f : Rodbus.Gen.Consts.fcode) : list pstep :=\n  match f with\n'
    for fc, steps in pf.items():
        out += f'  | Rodbus.Gen.Consts.{fc} => [' + '; '.join(steps) + ']\n'
    out += '  end.\n\n(* types.rs: BitIterator::parse_all / RegisterIterator::parse_all *)\n'
    out += 'Inductive nbytes := NBits (* num_bytes_for_bits(range.count) = (count as usize).div_ceil(8) *) | NTwicePerRegister (* 2 * (range.count as usize) *).\n'
    out += 'Inductive astep := AReadBytes (n : nbytes) | AExpectEmpty.\n'
    out += 'Definition parse_all_flow (k : pall) : list astep :=\n  match k with\n'
    for k, steps in pa.items():
        out += f'  | {k} => [' + '; '.join(steps) + ']\n'
    out += '  end.\n'
    return out


@generator('ReaderLoop.v', 'rodbus/src/common/frame.rs', 'rodbus/src/common/buffer.rs')
def gen_reader_loop(repo):
    """FramedReader::next_frame (called anew whenever run_one's select! is re-entered, and by the SAME reader across
    RTU port re-opens) and the compaction step of ReadBuffer::read_some, statement by statement."""
    fsrc = rp.read(f'{repo}/rodbus/src/common/frame.rs')
    nf = statements(rp.find_body(fsrc, r'pub\(crate\)\s+async\s+fn\s+next_frame\s*\('))
    if len(nf) != 1 or not nf[0].startswith('loop {'):
        raise ParseError(f'next_frame: the body is not a single loop (parser state must survive from call to call): {[x[:60] for x in nf]}')
    inner = statements(block_of(nf[0][len('loop '):], 'next_frame loop'))
    if len(inner) != 1 or not re.match(r'match self\.parser\.parse\(&mut self\.buffer, decode_level\.frame\) \{', inner[0]):
        raise ParseError(f'next_frame: the loop body is not `match self.parser.parse(..)`: {[x[:80] for x in inner]}')
    arms = dict(arms_of(inner[0], 'next_frame'))
    if set(arms) != {'Ok(Some(frame))', 'Ok(None)', 'Err(err)'}:
        raise ParseError(f'next_frame: arms {list(arms)}')
    if arms['Ok(Some(frame))'] != 'return Ok(frame)':
        raise ParseError('next_frame: a parsed frame is not returned as it is')
    none = statements(block_of(arms['Ok(None)'], 'need more') if arms['Ok(None)'].startswith('{') else arms['Ok(None)'])
    if none != ['self.buffer.read_some(io, decode_level.physical).await?']:
        raise ParseError(f'next_frame: Ok(None) arm: {none}')
    err = statements(block_of(arms['Err(err)'], 'error arm') if arms['Err(err)'].startswith('{') else arms['Err(err)'])
    if err != ['self.parser.reset()', 'return Err(err)']:
        raise ParseError(f'next_frame: the error arm is not `self.parser.reset(); return Err(err)`: {err}')
    bsrc = rp.read(f'{repo}/rodbus/src/common/buffer.rs')
    rs = statements(rp.find_body(bsrc, r'pub\(crate\)\s+async\s+fn\s+read_some\s*\('))
    want_rs = [r'if self\.is_empty\(\) \{ self\.begin = 0 ?; self\.end = 0 ?; \}', None,
               r'let count = io\.read\(&mut self\.buffer\[self\.end\.\.\], decode_level\)\.await\?',
               r'if count == 0 \{ return Err\(std::io::Error::from\(std::io::ErrorKind::UnexpectedEof\)\) ?; \}', r'self\.end \+= count', r'Ok\(count\)']
    if len(rs) != len(want_rs):
        raise ParseError(f'read_some: {len(rs)} statements')
    for s, w in zip(rs, want_rs):
        if w is not None and not re.fullmatch(w, s):
            raise ParseError('read_some: statement not understood: ' + s[:120])
    if not rs[1].startswith('if self.end == self.buffer.len() {'):
        raise ParseError('read_some: the compaction is not guarded by `self.end == self.buffer.len()`')
    comp = statements(block_of(rs[1][rs[1].index('{'):], 'compaction'))
    out = '(* common/frame.rs: FramedReader::next_frame = loop { match parser.parse(buffer) { frame => return it; need more => read_some?;\n   error => parser.reset(); return it } }: nothing is reset on ENTRY (a call dropped by select! is re-entered mid-frame), the\n   parser IS reset when a framing error is returned (the same reader serves the re-opened RTU port) *)\n'
    out += 'Definition next_frame_resets_parser_on_entry : bool := false.\n'
    out += 'Definition next_frame_resets_parser_on_error : bool := true.\n'
    out += '(* common/buffer.rs: ReadBuffer::read_some, the compaction when end == capacity, statement by statement *)\n'
    out += 'Definition read_some_compaction : list string := [' + '; '.join('"' + c.replace('"', '""') + '"' for c in comp) + ']%string.\n'
    return out
