"""Tiny Rust-subset reader used by the translator.

Handles exactly: comment stripping, brace matching, `const NAME: T = expr;` items (with a small
constant-expression evaluator over named constants), `match` arm splitting at nesting depth 0,
function / impl body lookup by regular expression, top-level argument splitting of call
expressions. Anything it does not recognise raises ParseError (never a silent default).
"""
import re


class ParseError(Exception):
    pass


_CHAR = re.compile(r"'(\\.|[^\\'])'")


def strip_comments(src):
    out = []
    i = 0
    n = len(src)
    while i < n:
        c = src[i]
        if src.startswith('//', i):
            j = src.find('\n', i)
            i = n if j < 0 else j
        elif src.startswith('/*', i):
            j = src.find('*/', i + 2)
            if j < 0:
                raise ParseError('unterminated block comment')
            i = j + 2
        elif c == '"':
            j = i + 1
            while j < n and src[j] != '"':
                j += 2 if src[j] == '\\' else 1
            out.append(src[i:j + 1])
            i = j + 1
        elif c == "'" and _CHAR.match(src, i):
            m = _CHAR.match(src, i)
            out.append(m.group(0))
            i = m.end()
        else:
            out.append(c)
            i += 1
    return ''.join(out)


def read(path):
    try:
        return strip_comments(open(path, encoding='utf-8').read())
    except OSError as e:
        raise ParseError(f'cannot read {path}: {e}')


def block_after(src, start):
    """text of the {...} block that begins at/after index start, and the index after it"""
    i = src.find('{', start)
    if i < 0:
        raise ParseError('no block found')
    depth = 0
    for j in range(i, len(src)):
        if src[j] == '{':
            depth += 1
        elif src[j] == '}':
            depth -= 1
            if depth == 0:
                return src[i + 1:j], j + 1
    raise ParseError('unbalanced braces')


def find_body(src, header_re):
    m = re.search(header_re, src)
    if not m:
        raise ParseError('not found: ' + header_re)
    return block_after(src, m.end() - 1 if src[m.end() - 1] == '{' else m.end())[0]


def split_top(s, sep=','):
    parts, depth, cur = [], 0, ''
    i = 0
    while i < len(s):
        ch = s[i]
        if ch in '([{':
            depth += 1
        elif ch in ')]}':
            depth -= 1
        if ch == sep and depth == 0:
            parts.append(cur)
            cur = ''
        else:
            cur += ch
        i += 1
    if cur.strip():
        parts.append(cur)
    return [p.strip() for p in parts]


def match_arms(body):
    """split `pat => expr` arms at depth 0 of a match body; returns [(pat, expr)]"""
    arms, depth, cur = [], 0, ''
    i = 0
    while i < len(body):
        ch = body[i]
        if ch in '([{':
            depth += 1
        if ch in ')]}':
            depth -= 1
        if ch == ',' and depth == 0:
            if '=>' in cur:
                arms.append(cur.strip())
            elif cur.strip():
                raise ParseError('match arm without => : ' + cur.strip()[:60])
            cur = ''
            i += 1
            continue
        cur += ch
        if ch == '}' and depth == 0 and '=>' in cur:
            # a block-bodied arm ends at its closing brace (optional comma follows)
            arms.append(cur.strip())
            cur = ''
        i += 1
    if '=>' in cur:
        arms.append(cur.strip())
    elif cur.strip():
        raise ParseError('trailing text in match body: ' + cur.strip()[:60])
    res = []
    for a in arms:
        pat, expr = a.split('=>', 1)
        expr = expr.strip()
        if expr.startswith('{') and expr.endswith('}'):
            inner = expr[1:-1].strip()
            # unwrap a block that holds a single expression
            if ';' not in inner:
                expr = inner
        res.append((pat.strip(), expr))
    return res


def first_match_body(body, scrutinee_re=r'[^{]*'):
    m = re.search(r'\bmatch\b\s*' + scrutinee_re, body)
    if not m:
        raise ParseError('no match expression')
    return block_after(body, m.start())[0]


def consts(src):
    """all `const NAME: TYPE = EXPR;` items in src -> {NAME: expr-string}"""
    res = {}
    for m in re.finditer(r'\bconst\s+([A-Z_][A-Z0-9_]*)\s*:\s*([^=;]+?)\s*=\s*([^;]+);', src):
        res[m.group(1)] = ' '.join(m.group(3).split())
    return res


def eval_const(expr, env):
    """evaluate an integer constant expression over + - * | and names (last path segment) in env"""
    e = expr.strip()
    e = re.sub(r'\b(0x[0-9A-Fa-f_]+|[0-9][0-9_]*)(u8|u16|u32|u64|usize)?\b', lambda m: str(int(m.group(1).replace('_', ''), 0)), e)

    def name(m):
        n = m.group(0).split('::')[-1]
        if n not in env:
            raise ParseError(f'unknown constant {m.group(0)} in `{expr}`')
        v = env[n]
        return str(v if isinstance(v, int) else eval_const(v, env))
    e = re.sub(r'[A-Za-z_][A-Za-z0-9_]*(?:::[A-Za-z_][A-Za-z0-9_]*)*', name, e)
    if not re.fullmatch(r'[0-9+\-*|() ]+', e):
        raise ParseError(f'unsupported constant expression `{expr}`')
    return int(eval(e, {'__builtins__': {}}))
